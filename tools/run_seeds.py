#!/usr/bin/env python3
"""Apply each seeded change to /repo, run the quick check of its property, undo the change. usage: run_seeds.py [Cxx ...] [--tier quick]
Writes seeded/RESULTS.json (per seed: exit code, violation lines). Never leaves /repo modified."""
import json, os, subprocess, sys, time
ROOT = os.path.dirname(os.path.dirname(os.path.abspath(__file__)))
args = [a for a in sys.argv[1:] if not a.startswith("--")]
tier = "thorough" if "--thorough" in sys.argv else "quick"
resf = os.path.join(ROOT, "seeded", "RESULTS.json")
res = json.load(open(resf)) if os.path.exists(resf) else {}
seeds = sorted(d for d in os.listdir(os.path.join(ROOT, "seeded")) if os.path.isfile(os.path.join(ROOT, "seeded", d, "patch.diff")))
for sd in seeds:
    prop = sd.split("-")[0]
    if args and prop not in args and sd not in args:
        continue
    patch = os.path.join(ROOT, "seeded", sd, "patch.diff")
    meta = json.load(open(os.path.join(ROOT, "seeded", sd, "meta.json")))
    if meta.get("status") == "retired":  # no longer a property-breaking change on the current /repo (see meta.json)
        res[sd] = {"property": prop, "tier": tier, "exit": None, "caught": None, "violations": [], "harness_errors": [], "wall_s": 0, "summary": "retired: " + meta.get("retired_reason", "")[:200]}
        print(sd, "RETIRED", flush=True)
        json.dump(res, open(resf, "w"), indent=1, sort_keys=True)
        continue
    assert subprocess.run(["git", "-C", "/repo", "status", "--porcelain", "--untracked-files=no"], capture_output=True, text=True).stdout.strip() == "", "/repo not clean"
    t0 = time.time()
    try:
        ap = subprocess.run(["git", "-C", "/repo", "apply", patch])
        if ap.returncode != 0:
            res[sd] = {"property": prop, "tier": tier, "exit": None, "caught": False, "violations": [], "harness_errors": ["patch does not apply to the current /repo HEAD"], "wall_s": 0, "summary": "patch does not apply"}
            print(sd, "PATCH-DOES-NOT-APPLY", flush=True)
            json.dump(res, open(resf, "w"), indent=1, sort_keys=True)
            continue
        p = subprocess.run([os.path.join(ROOT, "check"), prop, "--tier", tier, "--no-evidence", "--fail-fast"], cwd=ROOT, capture_output=True, text=True)
        checked = prop
        for other in meta.get("also_check", []):  # the change now violates a neighbouring property instead (see meta.json)
            if p.returncode == 1:
                break
            p = subprocess.run([os.path.join(ROOT, "check"), other, "--tier", tier, "--no-evidence", "--fail-fast"], cwd=ROOT, capture_output=True, text=True)
            checked = other
    finally:
        subprocess.run(["git", "-C", "/repo", "checkout", "--", "."], check=True)
    vio = [l for l in p.stdout.splitlines() if l.startswith("VIOLATION") or l.startswith("counterexample")]
    he = [l for l in p.stdout.splitlines() if l.startswith("HARNESS-ERROR")]
    res[sd] = {"property": prop, "checked_with": checked, "tier": tier, "exit": p.returncode, "caught": p.returncode == 1, "violations": vio[:6], "harness_errors": he[:4], "wall_s": round(time.time() - t0, 1), "summary": p.stdout.strip().splitlines()[-1] if p.stdout.strip() else p.stderr[-300:]}
    print(sd, "exit", p.returncode, "CAUGHT" if p.returncode == 1 else "MISSED", (vio[:1] or he[:1] or [""])[0][:200], flush=True)
    json.dump(res, open(resf, "w"), indent=1, sort_keys=True)
