#!/bin/bash
# validate_seed.sh <seed_dir> : confirm patch applies to /repo HEAD, tests pass with it, demo fails with it and passes without.
# Uses a scratch worktree outside /repo and /verif and removes it afterwards.
set -u
SD=$(realpath "$1"); W=$(mktemp -d /tmp/sv.XXXXXX); rmdir "$W"
git -C /repo worktree add -q --detach "$W" HEAD || exit 3
cp /repo/spec_classes/_version.py "$W/spec_classes/_version.py"
cleanup(){ git -C /repo worktree remove --force "$W" >/dev/null 2>&1; rm -rf "$W"; }
trap cleanup EXIT
cd "$W"
PYTHONPATH="$W" /venv/bin/python "$SD/demo.py" >/tmp/sv_out0.txt 2>&1; r0=$?
git apply "$SD/patch.diff" || { echo "RESULT $SD patch-does-not-apply"; exit 4; }
t=$(PYTHONPATH="$W" /venv/bin/python -m pytest -q -p no:cacheprovider 2>&1 | tail -1)
PYTHONPATH="$W" /venv/bin/python "$SD/demo.py" >/tmp/sv_out1.txt 2>&1; r1=$?
echo "RESULT $SD clean_demo_exit=$r0 patched_demo_exit=$r1 tests='$t' :: $(tail -1 /tmp/sv_out1.txt | cut -c1-200)"
