"""Run every warm input of every obligation of a harness module concretely (oracle sanity check). usage: concrete.py vf.harness.c14 [tier]"""
import collections, importlib, sys
sys.path.insert(0, "/verif")
from vf.replaylib import run_concrete
from vf import known
mod = importlib.import_module(sys.argv[1])
tier = sys.argv[2] if len(sys.argv) > 2 else "quick"
prop = sys.argv[1].rsplit(".", 1)[1][:3].upper()
kn = known.load(prop)
for ob in mod.obligations(tier):
    h = collections.Counter(); first = {}
    for a in ob.warm:
        oc, v = run_concrete(ob.fn, a, kn)
        h[oc] += 1
        if v and oc not in first: first[oc] = (a, v["detail"][:300])
    bad = {k: v for k, v in h.items() if k.startswith("VIOLATION")}
    print(("!! " if bad else "   ") + ob.name, dict(h))
    for k, (a, d) in first.items(): print("      ", k, a, d)
