#!/usr/bin/env python3
"""print the markdown table of seeded changes and which obligation caught each (from seeded/RESULTS.json + meta.json)"""
import json, os, re
ROOT = os.path.dirname(os.path.dirname(os.path.abspath(__file__)))
res = json.load(open(os.path.join(ROOT, "seeded", "RESULTS.json")))
print("| seed | change (file: what) | needs | quick check | first counterexample |")
print("|---|---|---|---|---|")
for sd in sorted(res):
    m = json.load(open(os.path.join(ROOT, "seeded", sd, "meta.json")))
    r = res[sd]
    what = (m.get("what_changed") or "")[:170].replace("|", "/").replace("\n", " ")
    needs = (m.get("needs_to_manifest") or "")[:110].replace("|", "/").replace("\n", " ")
    files = ",".join(os.path.basename(f) for f in (m.get("files") or []))[:40]
    v = (r.get("violations") or [""])[0]
    ob = re.search(r"counterexample (\S+)", v)
    sig = re.search(r"sig=(\S+)", v)
    first = f"`{ob.group(1)}` `{sig.group(1).rstrip(':')}`" if ob and sig else ("(see replay)" if r["caught"] else "-")
    print(f"| {sd} | {files}: {what} | {needs} | {'**caught** (exit 1)' if r['caught'] else 'MISSED (exit ' + str(r['exit']) + ')'} | {first} |")
