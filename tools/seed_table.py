#!/usr/bin/env python3
"""print the markdown table of seeded changes and which obligation caught each (from seeded/RESULTS.json + meta.json)"""
import json, os, re
ROOT = os.path.dirname(os.path.dirname(os.path.abspath(__file__)))
res = json.load(open(os.path.join(ROOT, "seeded", "RESULTS.json")))
print("| seed | change (file: what) | needs | quick check | first counterexample |")
print("|---|---|---|---|---|")
for sd in sorted(res):
    m = json.load(open(os.path.join(ROOT, "seeded", sd, "meta.json")))
    r = res[sd]
    what = (m.get("what_changed") or "")[:170].replace("|", "/").replace("\n", " ")
    needs = (m.get("needs_to_manifest") or "")[:110].replace("|", "/").replace("\n", " ")
    files = ",".join(os.path.basename(f) for f in (m.get("files") or []))[:40]
    v = (r.get("violations") or [""])[0]
    ob = re.search(r"counterexample (\S+)", v)
    sig = re.search(r"sig=(\S+)", v)
    first = f"`{ob.group(1)}` `{sig.group(1).rstrip(':')}`" if ob and sig else ("(see replay)" if r["caught"] else "-")
    if r.get("caught") is None:
        status = "retired (" + (m.get("retired_reason") or "")[:120] + ")"
    elif r["caught"]:
        status = "**caught** (exit 1" + (", by the " + r["checked_with"] + " check" if r.get("checked_with") not in (None, r["property"]) else "") + ")"
    else:
        status = "MISSED (exit " + str(r["exit"]) + ")"
    print(f"| {sd} | {files}: {what} | {needs} | {status} | {first} |")
