"""Per-property claim texts for MANIFEST.json."""
TB = "Trusted: CPython 3.12.1, CrossHair 0.0.110's model of Python semantics and its exhaustion bookkeeping (configured as in DESIGN.md 2/E1), z3 5.1.0, the reference models in /verif/vf. Stubs: repr() in library error-message modules. Every reported violation is replayed concretely without CrossHair; every 'holds' is bounded by the per-obligation bounds in the evidence file."
CLAIMS = {
    "C13": {
        "technique": "bounded symbolic execution (CrossHair+z3): one inductive step from an arbitrary valid KeyedList vs plain-list model",
        "text": "For every KeyedList state with <=2 (quick) / <=3-4 (thorough) items over four item universes (explicit key function, keyed spec items, self-keyed ints, parameterised KeyedList[T,K]) and every single list/key operation of the statement with symbolic index in [-n-1,n+1], symbolic payloads and a new item whose key is any existing or fresh key, the real KeyedList agrees with a plain list + unique-key rule, key reads agree with a linear scan, and a raising operation leaves the container unchanged. The path tree of every obligation is exhausted by the solver; one step from an arbitrary valid state covers histories of any length inside the size bound.",
        "note": TB + " Outside: containers longer than the bound, slice assignment/deletion (RuntimeError by design), membership of bare keys, unhashable keys.",
    },
}
CLAIMS["C14"] = {
    "technique": "bounded symbolic execution (CrossHair+z3): one inductive step from an arbitrary valid KeyedSet vs dict-by-key model",
    "text": "For every KeyedSet with <=2 (quick) / <=3 (thorough) items over four item universes (hashable items with explicit key function, keyed spec items, unhashable items with hashable keys, self-keyed items) plus KeyedSet[T,K], both settings of enforce_item_equivalence (symbolic), and every single operation (add, discard/remove/in/[] by item or by key, pop, clear, | & - ^ <= == |= -= isdisjoint against KeyedSet and built-in set operands) with symbolic argument keys and payloads, the real container agrees with a dict key->most recently added item and with set algebra on keys; ValueError/TypeError cases change nothing. Path trees exhausted by the solver; the step is inductive over histories.",
    "note": TB + " Outside: sets larger than the bound; universes in which an item equals another item's key (documented ambiguity); with enforce_item_equivalence or a built-in set operand, operands holding unequal items under a shared key (membership is then item-sensitive; the statement only speaks of algebra on keys); surviving item of | per key is not pinned.",
}
NOT_APPLICABLE = {}
