#!/usr/bin/env python3
"""Regenerate MANIFEST.json from the table below (kept in one place so it stays valid)."""
import json, os, sys
ROOT = os.path.dirname(os.path.dirname(os.path.abspath(__file__)))
sys.path.insert(0, ROOT)
from vf.registry import REGISTRY
from tools.claims import CLAIMS, NOT_APPLICABLE

props = [json.loads(l)["id"] for l in open(os.path.join(ROOT, "properties.jsonl"))]
checks = []
for pid in props:
    if pid in REGISTRY and pid in CLAIMS:
        c = CLAIMS[pid]
        checks.append({
            "property_id": pid,
            "quick_cmd": f"./check {pid} --tier quick",
            "thorough_cmd": f"./check {pid} --tier thorough",
            "evidence_file": f"evidence/{pid}.json",
            "replay_cmd_template": f"./check {pid} --replay {{path}}",
            "engine": c.get("engine", "E1"),
            "level_claimed": {"category": "model_checking", "text": c["text"], "design_ref": c.get("design_ref", "DESIGN.md section 4/" + pid)},
            "level_note": c["note"],
            "technique": c["technique"],
        })
na = [{"property_id": pid, "reason": NOT_APPLICABLE.get(pid, "check not built yet in this round; no claim is made")} for pid in props if not (pid in REGISTRY and pid in CLAIMS)]
m = {
    "version": 1,
    "setup_cmd": "./setup.sh",
    "hooks": {
        "guard": "SPEC_CLASSES_VERIF",
        "enable": "no repository hooks: statement-level instrumentation (fault / preemption points) is applied in memory by an import hook in /verif/vf/instrument.py; the guard variable is unused by /repo",
        "baseline_off_cmd": "cd /repo && /venv/bin/python -m pytest -ra -q -p no:cacheprovider --timeout=900 --continue-on-collection-errors",
        "source_commits": [],
        "add_only": True,
    },
    "engines": [
        {"name": "E1", "path": "vf/engine.py", "serves_properties": sorted(p for p in REGISTRY if p in CLAIMS), "kind_free_text": "CrossHair 0.0.110 path exploration (crosshair.core.explore_paths) of harnesses over the real library, z3 deciding every branch on a symbolic condition; verdict CONFIRMED only when the path tree is exhausted"},
        {"name": "E2", "path": "vf/instrument.py", "serves_properties": [p for p in ("C01", "C19", "C20") if p in REGISTRY and p in CLAIMS], "kind_free_text": "in-memory AST instrumentation of spec_classes with a symbolic statement index (fault injection / preemption point) explored by E1"},
        {"name": "E3", "path": "vf/bmc.py", "serves_properties": [p for p in ("C20",) if p in REGISTRY and p in CLAIMS], "kind_free_text": "z3 bounded model checking of the lock/refcount transition system extracted from utils/mutation.py by an AST translator on every run"},
    ],
    "checks": checks,
    "not_applicable": na,
    "notes": "All claims are bounded: 'for every value of the symbolic variables inside the bounds listed per obligation in evidence/<id>.json'. Exit 2 = inconclusive/harness error. Known findings: KNOWN_FINDINGS.txt.",
}
json.dump(m, open(os.path.join(ROOT, "MANIFEST.json"), "w"), indent=1)
print("checks:", [c["property_id"] for c in checks], "not_applicable:", len(na))
