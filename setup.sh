#!/bin/bash
# setup_cmd: build the overlay venv offline (idempotent).
# /venv's interpreter + /venv's site-packages (repo deps) + /repo on the path + crosshair-tool from the wheelhouse.
set -euo pipefail
cd "$(dirname "$0")"
V=.venv
if [ -x "$V/bin/python" ] && "$V/bin/python" -c "import crosshair, z3, spec_classes" 2>/dev/null; then
  exit 0
fi
rm -rf "$V"
/venv/bin/python -m venv "$V"
SP=$("$V/bin/python" -c "import sysconfig; print(sysconfig.get_paths()['purelib'])")
printf '%s\n' "import site; site.addsitedir('/venv/lib/python3.12/site-packages')" /repo > "$SP/vf_overlay.pth"
PIP_NO_INDEX=1 "$V/bin/python" -m pip install -q --no-index --find-links /opt/veriftools/wheels crosshair-tool >/dev/null
"$V/bin/python" -c "import crosshair, z3, spec_classes; print('overlay ok', z3.get_version_string())"
