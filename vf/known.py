"""KNOWN_FINDINGS.txt: `finding: property=<id> sig=<signature> <what fails>` / `fixed: property=<id> <commit> <what failed>`.
Read-only at run time. `fixed:` lines suppress nothing."""
import os
import re

PATH = os.path.join(os.path.dirname(os.path.dirname(os.path.abspath(__file__))), "KNOWN_FINDINGS.txt")


def load(prop=None):
    out = {}
    if not os.path.exists(PATH):
        return out
    for line in open(PATH, encoding="utf-8"):
        line = line.strip()
        m = re.match(r"finding:\s+property=(\S+)\s+sig=(\S+)\s+(.*)$", line)
        if m and (prop is None or m.group(1) == prop):
            out[m.group(2)] = m.group(3)
    return out
