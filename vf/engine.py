"""E1 driver: CrossHair path exploration of a harness over the real library, with z3 deciding every branch.

Built on crosshair.core.explore_paths (see DESIGN.md section 2/E1 for why not `crosshair check`).
One obligation per process; this module is imported by vf.worker only.
"""
import abc
import inspect
import json
import math
import os
import sys
import time
import traceback

import crosshair.core_and_libs  # noqa: F401  (registers CrossHair's library models)
import z3
from crosshair import core
from crosshair.core import deep_realize, explore_paths
from crosshair.options import DEFAULT_OPTIONS, AnalysisOptionSet
from crosshair.statespace import RootNode, VerificationStatus
from crosshair.tracers import NoTracing

from vf.sym import Skip, Violation

# --------------------------------------------------------------------------------------
# Engine configuration this library needs (each item found by a probe that produced a wrong answer without it)

_CONFIGURED = False


def configure_crosshair():
    global _CONFIGURED
    if _CONFIGURED:
        return
    _CONFIGURED = True
    # (1) getattr/setattr/hasattr interceptors run the real builtin under NoTracing -> library code reached through
    #     setattr() would see symbolics untraced. Attribute names are never symbolic here, so drop them.
    for b in (getattr, setattr, hasattr):
        core._PATCH_REGISTRATIONS.pop(b, None)
    # (2) CrossHair's isinstance ignores metaclass __instancecheck__ (ValidatedTypeMeta).
    ch_isinstance = core._PATCH_REGISTRATIONS[isinstance]

    def vf_isinstance(obj, types):
        hook = None
        with NoTracing():
            if not isinstance(types, tuple):
                m = type(types)
                if m not in (type, abc.ABCMeta) and getattr(m, "__module__", "").startswith("spec_classes"):
                    for c in m.__mro__:
                        if "__instancecheck__" in vars(c):
                            if c not in (type, abc.ABCMeta):
                                hook = m.__instancecheck__
                            break
        if hook is not None:
            return hook(types, obj)
        return ch_isinstance(obj, types)

    core._PATCH_REGISTRATIONS[isinstance] = vf_isinstance

    # (3) "premature realisation": CrossHair's search heuristic forks (ParallelNode) at every symbolic argument and, on
    #     one side, realises it before any assume() has constrained it. That side only produces out-of-bound (skipped)
    #     paths here and its probability grows to 80% for arguments that get hashed; the symbolic side alone decides
    #     exhaustion (ParallelNode is exhausted when either child is), so the heuristic is switched off.
    from crosshair.statespace import StateSpace

    orig_fork_parallel = StateSpace.fork_parallel

    def fork_parallel(self, false_probability, desc=""):
        if desc.startswith("premature realize"):
            return False
        return orig_fork_parallel(self, false_probability, desc)

    StateSpace.fork_parallel = fork_parallel


# --------------------------------------------------------------------------------------
# repr stub (error-message f-strings realise symbolic values digit by digit)

_REPR_SKIP = ("spec_classes.utils.method_builder", "spec_classes.methods.core")


def _vrepr(x):
    return "<v>"


def install_repr_stub():
    for m in list(sys.modules.values()):
        n = getattr(m, "__name__", "") if m is not None else ""
        if n.startswith("spec_classes") and n not in _REPR_SKIP:
            m.__dict__["repr"] = _vrepr


def uninstall_repr_stub():
    for m in list(sys.modules.values()):
        n = getattr(m, "__name__", "") if m is not None else ""
        if n.startswith("spec_classes") and m.__dict__.get("repr") is _vrepr:
            del m.__dict__["repr"]


# --------------------------------------------------------------------------------------
# solver accounting

SOLVER = {"queries": 0, "sat": 0, "unsat": 0, "unknown": 0, "time": 0.0}
_orig_check = z3.Solver.check


def _counted_check(self, *a):
    t = time.perf_counter()
    r = _orig_check(self, *a)
    SOLVER["time"] += time.perf_counter() - t
    SOLVER["queries"] += 1
    SOLVER[str(r)] = SOLVER.get(str(r), 0) + 1
    return r


z3.Solver.check = _counted_check


from vf.replaylib import dec, enc, run_concrete  # noqa: E402,F401

# --------------------------------------------------------------------------------------
# symbolic exploration


def explore(ob, known, seed=0, max_witness=2000):
    """Explore every feasible path of ob.fn. Returns a JSON-able result dict."""
    configure_crosshair()
    fn = ob.fn
    sig = inspect.signature(fn)
    res = {
        "name": ob.name,
        "bounds": ob.bounds,
        "paths": 0,
        "skipped": 0,
        "hist": {},
        "known_hit": {},
        "cex": None,
        "witness_checked": 0,
        "witness_mismatch": [],
        "samples": [],
        "error": None,
    }
    t0 = time.time()

    # ---- warm-up: concrete sweep (also the translator sanity check; fills lazily built library state)
    warm_hist = {}
    for args in ob.warm:
        oc, vio = run_concrete(fn, args, known)
        warm_hist[oc] = warm_hist.get(oc, 0) + 1
        if oc.startswith("known:"):
            res["known_hit"][oc[6:]] = res["known_hit"].get(oc[6:], 0) + 1
        if vio is not None:
            res["cex"] = {"args": enc(list(args)), "source": "concrete-sweep", **vio}
            res["verdict"] = "REFUTED"
            res["warm"] = warm_hist
            res["wall_s"] = round(time.time() - t0, 2)
            res["solver"] = dict(SOLVER)
            return res
    res["warm"] = warm_hist

    if ob.stub_repr:
        install_repr_stub()

    witnesses = []
    opts = DEFAULT_OPTIONS.overlay(
        AnalysisOptionSet(
            per_condition_timeout=ob.timeout,
            per_path_timeout=ob.per_path,
            max_uninteresting_iterations=sys.maxsize,
            max_iterations=sys.maxsize,
        )
    )
    root = RootNode()

    def run_path(bound):
        return fn(*bound.args, **bound.kwargs)

    def done(space, pre_args, post_args, ret, user_exc, stack):
        res["paths"] += 1
        if isinstance(user_exc, Skip):
            res["skipped"] += 1
            return False
        # realise this path's inputs (detached: does not grow the tree)
        try:
            space.detach_path()
            conc = deep_realize(pre_args)
            with NoTracing():
                cargs = enc(list(conc.args))
        except Exception as e:  # could not realise: keep going, just no witness
            cargs = None
            with NoTracing():
                res.setdefault("realise_errors", []).append(repr(e)[:200])
        # render a violation's detail while tracing is still on (its lambda may format symbolic values; doing that
        # under NoTracing raises CrossHairInternal). The path is already detached, so this cannot grow the tree.
        vdetail = ""
        if isinstance(user_exc, Violation) and str(user_exc.sig) not in known:
            try:
                vdetail = deep_realize(str(user_exc.detail)[:500])  # (str() of a symbolic value is itself symbolic under tracing)
            except BaseException as e:  # noqa: B036 - CrossHair control-flow exceptions are BaseExceptions
                vdetail = f"<detail unavailable: {type(e).__name__}>"
        with NoTracing():
            if user_exc is None:
                oc = str(ret)
            elif isinstance(user_exc, Violation):
                s = str(user_exc.sig)
                if s in known:
                    oc = f"known:{s}"
                    res["known_hit"][s] = res["known_hit"].get(s, 0) + 1
                else:
                    oc = f"VIOLATION:{s}"
                    res["cex"] = {"args": cargs, "source": "symbolic", "clause": str(user_exc.clause), "sig": s, "detail": vdetail if type(vdetail) is str else repr(vdetail)}
            else:
                s = f"unexpected-exception/{type(user_exc).__name__}"
                if s in known:
                    oc = f"known:{s}"
                    res["known_hit"][s] = res["known_hit"].get(s, 0) + 1
                else:
                    oc = f"VIOLATION:{s}"
                    res["cex"] = {"args": cargs, "source": "symbolic", "clause": "no unexpected exception", "sig": s, "detail": (repr(user_exc) + " " + str(stack))[-1500:]}
            res["hist"][oc] = res["hist"].get(oc, 0) + 1
            if cargs is not None:
                witnesses.append((cargs, oc))
            return res["cex"] is not None

    import vf.sym as _sym

    _sym._TRACING[0] = True
    try:
        explore_paths(run_path, sig, opts, root, done)
    except BaseException as e:  # NotDeterministic etc. are BaseException in CrossHair
        res["error"] = f"{type(e).__name__}: {e}"[:800]
    _sym._TRACING[0] = False
    exhausted, status = False, None
    try:
        node = root.child
        exhausted = bool(node.is_exhausted())
        status = node.get_result().verification_status
    except Exception as e:
        status = repr(e)
    if res["cex"] is not None:
        verdict = "REFUTED"
    elif res["error"]:
        verdict = "ERROR"
    elif exhausted and status == VerificationStatus.CONFIRMED:
        verdict = "CONFIRMED"
    else:
        verdict = "NOT_EXHAUSTED"
    res["status"] = str(status)
    try:
        res["tree_stats"] = {str(k): v for k, v in dict(root.child.stats()).items() if isinstance(k, VerificationStatus)}
    except Exception:
        pass
    res["explore_s"] = round(time.time() - t0, 2)

    # ---- witness cross-check: re-run every path's realised inputs concretely, without tracing and without stubs
    uninstall_repr_stub()
    import random

    rnd = random.Random(seed)
    chosen = witnesses if len(witnesses) <= max_witness else rnd.sample(witnesses, max_witness)
    for cargs, oc in chosen:
        if oc.startswith("VIOLATION:"):
            continue  # counterexamples are replayed in a fresh interpreter by the caller
        oc2, _ = run_concrete(fn, dec(cargs), known)
        res["witness_checked"] += 1
        if oc2 != oc:
            res["witness_mismatch"].append({"args": cargs, "symbolic": oc, "concrete": oc2})
    if res["witness_mismatch"] and verdict == "CONFIRMED":
        verdict = "WITNESS_MISMATCH"
    res["samples"] = [{"args": a, "outcome": o} for a, o in witnesses[:: max(1, len(witnesses) // 5)][:6]]
    if os.environ.get("VF_DEBUG_WITNESSES"):
        res["all_witnesses"] = witnesses
    # distinct non-trivial cases: distinct (outcome class, realised args) among non-skip paths
    res["distinct"] = len({json.dumps([a, o], sort_keys=True, default=str) for a, o in witnesses})
    res["verdict"] = verdict
    res["exhausted"] = exhausted
    res["solver"] = {k: (round(v, 3) if isinstance(v, float) else v) for k, v in SOLVER.items()}
    res["wall_s"] = round(time.time() - t0, 2)
    return res
