"""Harness-side vocabulary. Imports nothing from CrossHair so replays run on a plain interpreter."""


class Skip(Exception):
    """Raised by assume(): the path lies outside the stated bound. Never a failure."""


class Violation(Exception):
    """Raised by a harness when an oracle clause fails.

    clause: which sentence of the property failed (DESIGN.md section 11)
    sig:    failure signature '<harness>/<clause>/<abstract input class>' matched against KNOWN_FINDINGS.txt
    """

    def __init__(self, clause, sig=None, detail=""):
        super().__init__(clause, sig)
        self.clause = clause
        self.sig = sig or clause
        self._detail = detail

    @property
    def detail(self):
        """evaluated lazily (a callable detail renders symbolic values: doing that eagerly on a path that merely hits a
        known finding would realise them digit by digit and multiply paths)."""
        d = self._detail
        if callable(d):
            try:
                d = d()
            except Exception as e:  # pragma: no cover
                d = f"<detail failed: {e!r}>"
            self._detail = d
        return d

    def __str__(self):
        return f"{self.sig}"


def assume(cond):
    if not cond:
        raise Skip()


def check(cond, clause, sig=None, detail=""):
    """detail may be a zero-argument callable: it is evaluated only on failure (an eager f-string over symbolic
    values would realise them on every path)."""
    if not cond:
        raise Violation(clause, sig, _freeze(detail))


def _freeze(detail):
    """A lazy detail is rendered after the harness has returned; names bound by `except ... as ex` are unbound when their
    block exits, so the closure cells are copied (references only - nothing symbolic is evaluated) at failure time."""
    cells = getattr(detail, "__closure__", None)
    if not cells:
        return detail
    import types

    frozen = []
    for c in cells:
        try:
            frozen.append(types.CellType(c.cell_contents))
        except ValueError:  # empty cell
            frozen.append(c)
    return types.FunctionType(detail.__code__, detail.__globals__, detail.__name__, detail.__defaults__, tuple(frozen))


class Ob:
    """One proof obligation: a harness function with primitive typed parameters plus its bookkeeping."""

    def __init__(self, name, fn, warm, bounds, expect=(), timeout=120.0, per_path=30.0, stub_repr=True, notes="", group=None):
        self.name = name
        self.fn = fn
        self.warm = list(warm)
        self.bounds = bounds
        self.expect = set(expect)
        self.timeout = timeout
        self.per_path = per_path
        self.stub_repr = stub_repr
        self.notes = notes
        self.group = group  # shards of one space: the non-vacuity requirement applies to the group as a whole


def pick(pool, idx):
    """pool[idx] for a bounded symbolic idx by an explicit comparison chain: forks on idx == j and returns the REAL pool
    element. (Indexing a concrete list with a symbolic int makes CrossHair build a symbolic element for homogeneous
    lists - e.g. a SymbolicType for a list of classes - which library code then treats differently from the real one.)"""
    n = len(pool)
    assume(0 <= idx < n)
    for j in range(n - 1):
        if idx == j:
            return pool[j]
    return pool[n - 1]


_TRACING = [False]


def symbolic_run():
    """True while the engine explores the harness symbolically (False during the concrete sweep, witness re-execution and
    replay). Used only to cut value kinds that CrossHair itself mis-models out of the SYMBOLIC run; they stay in the
    concrete sweep and every such cut is listed in the obligation's bounds."""
    return _TRACING[0]
