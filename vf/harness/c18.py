"""C18 — Alias mirrors its target until overridden; passthrough writes reach the target.

Alias configurations (passthrough x transform x fallback x path shape x Alias/DeprecatedAlias) are built once and selected by
symbolic indices; a history of operations with symbolic selectors and values runs on the real descriptor and on the
two-variable model (target value | missing, local override | none).
"""
import copy
import warnings

from spec_classes import Alias, DeprecatedAlias, spec_class

from vf.sym import Ob, Violation, assume, check, pick


class In:
    pass


SHAPES = ["t", "inner.a", 'd["k"]', "inner.d['k']"]
FALLBACK = [41]  # mutable: reads must hand out fresh copies


def _tr(x):
    return x + 1


class Acc:
    """direct access to the target of each path shape on a plain instance"""

    def __init__(self, shape):
        self.shape = shape

    def init(self, o):
        o.inner = In()
        o.inner.d = {}
        o.d = {}

    def has(self, o):
        s = self.shape
        if s == "t":
            return "t" in o.__dict__
        if s == "inner.a":
            return "a" in o.inner.__dict__
        if s == 'd["k"]':
            return "k" in o.d
        return "k" in o.inner.d

    def get(self, o):
        s = self.shape
        if s == "t":
            return o.t
        if s == "inner.a":
            return o.inner.a
        if s == 'd["k"]':
            return o.d["k"]
        return o.inner.d["k"]

    def set(self, o, v):
        s = self.shape
        if s == "t":
            o.t = v
        elif s == "inner.a":
            o.inner.a = v
        elif s == 'd["k"]':
            o.d["k"] = v
        else:
            o.inner.d["k"] = v

    def delete(self, o):
        s = self.shape
        if s == "t":
            del o.t
        elif s == "inner.a":
            del o.inner.a
        elif s == 'd["k"]':
            del o.d["k"]
        else:
            del o.inner.d["k"]


def make_plain(shape, passthrough, transform, fallback, deprecated):
    kw = dict(passthrough=passthrough, transform=_tr if transform else None)
    if fallback:
        kw["fallback"] = FALLBACK
    al = (DeprecatedAlias if deprecated else Alias)(shape, **kw)
    sibling = Alias(shape)  # a second, plain alias of the same target
    return type("P", (), {"al": al, "sib": sibling})


CONFIGS = [(sh, p, t, f, d) for sh in range(4) for p in (False, True) for t in (False, True) for f in (False, True) for d in (False, True)]
PLAIN = {c: make_plain(SHAPES[c[0]], *c[1:]) for c in CONFIGS}


def run(fn, deprecated):
    """returns (kind, value_or_exception, number_of_warnings)"""
    with warnings.catch_warnings(record=True) as rec:
        warnings.simplefilter("always")
        try:
            r = ("ok", fn())
        except Violation:
            raise
        except Exception as ex:
            r = ("raise", ex)
    return r[0], r[1], len([w for w in rec if issubclass(w.category, DeprecationWarning)])


def make_plain_step(nops, deprecated, fsh=None, fp=None):
    def h(sh: int, p: bool, t: bool, f: bool, tgt0: bool, v0: int, op1: int, v1: int, op2: int, v2: int, op3: int, v3: int, z1: bool, z2: bool) -> str:
        if fsh is None:
            assume(0 <= sh <= 3)
            cfg = (pick([0, 1, 2, 3], sh), bool(p), bool(t), bool(f), deprecated)
        else:
            cfg = (fsh, fp, bool(t), bool(f), deprecated)
        passthrough, transform, fallback = cfg[1], cfg[2], cfg[3]
        cls = PLAIN[cfg]
        acc = Acc(SHAPES[cfg[0]])
        o = cls()
        acc.init(o)
        target = [None, False]  # value, present
        override = [None, False]
        if tgt0:
            acc.set(o, v0)
            target = [v0, True]
        trace = []
        for op, v, z in [(op1, v1, z1), (op2, v2, z2), (op3, v3, False)][:nops]:
            assume(0 <= op <= 6)
            if op == 1 and z and not transform:
                v = None  # a local / forwarded assignment of None is an assignment like any other
            tag = f"C18/plain/{['read','write','delete','target-write','target-delete','deepcopy-read','read-twice'][op]}"
            trace.append((tag.rsplit("/", 1)[1], cfg))
            nwarn = 0
            if op in (0, 5, 6):
                obj = o
                if op == 5:
                    obj = copy.deepcopy(o)
                kind, got, nwarn = run(lambda: obj.al, deprecated)
                if override[1] and not passthrough:
                    want = ("ok", override[0])
                elif target[1]:
                    want = ("ok", target[0] + 1 if transform else target[0])
                elif fallback:
                    want = ("ok", [41])
                else:
                    want = ("raise", AttributeError)
                if want[0] == "raise":
                    check(kind == "raise" and isinstance(got, AttributeError), "a missing target without fallback yields AttributeError", f"{tag}/should-raise-AttributeError", lambda: f"{trace} -> {kind} {got!r}")
                else:
                    check(kind == "ok", "read must not raise", f"{tag}/unexpected-{type(got).__name__}", lambda: f"{trace}: {got!r}")
                    check(got is want[1] or got == want[1], "alias reads as the (transformed) current target until assigned locally; fallback when the target is missing", f"{tag}/value", lambda: f"{trace}: got {got!r} want {want[1]!r}")
                    if fallback and not target[1] and not (override[1] and not passthrough):
                        check(got is not FALLBACK, "a missing target yields a FRESH copy of the fallback", f"{tag}/fallback-shared")
                        if op == 6:
                            k2, got2, _ = run(lambda: obj.al, deprecated)
                            check(k2 == "ok" and got2 is not got and got2 == got, "each read yields a fresh copy of the fallback", f"{tag}/fallback-not-fresh")
                check(FALLBACK == [41], "the fallback object itself is never modified", f"{tag}/fallback-modified")
            elif op == 1:
                kind, got, nwarn = run(lambda: setattr(o, "al", v), deprecated)
                check(kind == "ok", "assignment must not raise", f"{tag}/unexpected-{type(got).__name__}", lambda: f"{trace}: {got!r}")
                if passthrough:
                    target = [v, True]
                else:
                    override = [v, True]
            elif op == 2:
                kind, got, nwarn = run(lambda: delattr(o, "al"), deprecated)
                if passthrough:
                    if target[1]:
                        check(kind == "ok", "passthrough deletion is forwarded to the target", f"{tag}/unexpected-{type(got).__name__}", lambda: repr(got))
                        target = [None, False]
                    else:
                        check(kind == "raise" and isinstance(got, (AttributeError, KeyError)), "deleting a missing target raises", f"{tag}/missing-target-accepted", lambda: repr(got))
                else:
                    if override[1]:
                        check(kind == "ok", "deleting the local assignment restores the live view", f"{tag}/unexpected-{type(got).__name__}", lambda: repr(got))
                        override = [None, False]
                    else:
                        check(kind == "raise" and isinstance(got, AttributeError), "deleting without a local assignment raises AttributeError", f"{tag}/should-raise-AttributeError", lambda: repr(got))
            elif op == 3:
                acc.set(o, v)
                target = [v, True]
            elif op == 4:
                if target[1]:
                    acc.delete(o)
                    target = [None, False]
            # the target as seen directly must agree with the model (a local assignment never modifies the target)
            check(acc.has(o) == target[1] and (not target[1] or acc.get(o) is target[0] or acc.get(o) == target[0]), "a local assignment shadows the target without modifying it; passthrough forwards to the target", f"{tag}/target-state", lambda: f"{trace}: target {acc.has(o)} vs model {target!r}")
            # a sibling alias of the same target keeps mirroring the target (overrides are per alias)
            try:
                sv = ("ok", o.sib)
            except AttributeError:
                sv = ("missing", None)
            check((sv[0] == "ok") == target[1] and (not target[1] or sv[1] is target[0] or sv[1] == target[0]), "an aliased attribute reads as the current value of its target until IT is assigned locally", f"{tag}/sibling-alias-affected", lambda: f"{trace}: sibling reads {sv!r}, target {target!r}")
            if op in (0, 1, 2, 5, 6):
                check(nwarn == (1 if deprecated else 0), "DeprecatedAlias warns on every access and changes nothing else; Alias does not warn", f"{tag}/warnings-{nwarn}", lambda: f"{trace}")
        return "ok"

    h.__name__ = f"alias_plain_{nops}_{'dep' if deprecated else 'alias'}"
    return h


# ---------------------------------------------------------------------------------------------------------------------
# alias as a managed, type-checked attribute of a spec class


def make_spec_cls(passthrough, transform, fallback):
    kw = dict(passthrough=passthrough, transform=_tr if transform else None)
    if fallback:
        kw["fallback"] = 99
    ns = {"__annotations__": {"t": int, "al": int, "y": int}, "al": Alias("t", **kw), "y": 0}
    return spec_class(bootstrap=True)(type("S", (), ns))


SPECS = {(p, t, f): make_spec_cls(p, t, f) for p in (False, True) for t in (False, True) for f in (False, True)}


def make_spec_step(nops):
    def h(p: bool, t: bool, f: bool, tgt0: bool, v0: int, op1: int, v1: int, op2: int, v2: int) -> str:
        passthrough, transform, fallback = bool(p), bool(t), bool(f)
        cls = SPECS[(passthrough, transform, fallback)]
        o = cls(t=v0) if tgt0 else cls()
        target = [v0, True] if tgt0 else [None, False]
        override = [None, False]
        trace = []

        def expect_read(tg, ov):
            if ov[1] and not passthrough:
                return ("ok", ov[0])
            if tg[1]:
                return ("ok", tg[0] + 1 if transform else tg[0])
            if fallback:
                return ("ok", 99)
            return ("raise", AttributeError)

        def check_read(obj, tg, ov, tag):
            kind, got, _ = run(lambda: obj.al, False)
            want = expect_read(tg, ov)
            if want[0] == "raise":
                check(kind == "raise" and isinstance(got, AttributeError), "missing target without fallback -> AttributeError", f"{tag}/should-raise-AttributeError", lambda: f"{trace} {got!r}")
            else:
                check(kind == "ok" and (got is want[1] or got == want[1]), "alias value on a spec class", f"{tag}/value", lambda: f"{trace}: got {kind} {got!r} want {want[1]!r}")

        for op, v in [(op1, v1), (op2, v2)][:nops]:
            assume(0 <= op <= 6)
            name = ["read", "write", "delete", "with_al", "with_t", "deepcopy", "write-bad"][op]
            tag = f"C18/spec/{name}"
            trace.append(name)
            if op == 0:
                check_read(o, target, override, tag)
            elif op == 1:
                kind, got, _ = run(lambda: setattr(o, "al", v), False)
                check(kind == "ok", "assignment must not raise", f"{tag}/unexpected-{type(got).__name__}", lambda: repr(got))
                if passthrough:
                    target = [v, True]
                else:
                    override = [v, True]
            elif op == 2:
                kind, got, _ = run(lambda: delattr(o, "al"), False)
                if passthrough:
                    if target[1]:
                        check(kind == "ok", "passthrough deletion reaches the target", f"{tag}/unexpected-{type(got).__name__}", lambda: repr(got))
                        target = [None, False]
                    else:
                        check(kind == "raise", "deleting a missing target raises", f"{tag}/missing-target-accepted")
                elif override[1]:
                    check(kind == "ok", "deleting the local assignment", f"{tag}/unexpected-{type(got).__name__}", lambda: repr(got))
                    override = [None, False]
                else:
                    check(kind == "raise" and isinstance(got, AttributeError), "deleting without a local assignment raises AttributeError", f"{tag}/should-raise-AttributeError", lambda: repr(got))
            elif op == 3:  # copy-on-write helper on the alias: receiver unchanged, result carries the write
                kind, r, _ = run(lambda: o.with_al(v), False)
                check(kind == "ok", "with_<alias> must not raise", f"{tag}/unexpected-{type(r).__name__}", lambda: repr(r))
                check(r is not o, "copy-on-write helper returns a copy", f"{tag}/identity")
                check_read(o, target, override, tag + "-receiver")
                if passthrough:
                    check_read(r, [v, True], override, tag + "-result")
                else:
                    check_read(r, target, [v, True], tag + "-result")
            elif op == 4:  # copy-on-write helper on the target
                kind, r, _ = run(lambda: o.with_t(v), False)
                check(kind == "ok" and r is not o, "with_<target>", f"{tag}/unexpected", lambda: repr(r))
                check_read(o, target, override, tag + "-receiver")
                check_read(r, [v, True], override, tag + "-result")
            elif op == 5:
                d = copy.deepcopy(o)
                check_read(d, target, override, tag)
            else:  # ill-typed assignment: the alias is a type-checked attribute
                kind, got, _ = run(lambda: setattr(o, "al", "str"), False)
                check(kind == "raise" and isinstance(got, TypeError), "the alias is a managed, type-checked attribute", f"{tag}/ill-typed-accepted", lambda: repr(got))
            # target view
            has = "t" in o.__dict__
            check(has == target[1] and (not has or o.t is target[0] or o.t == target[0]), "target state agrees with the model", f"{tag}/target-state", lambda: f"{trace}")
        return "ok"

    h.__name__ = f"alias_spec_{nops}"
    return h


# ---------------------------------------------------------------------------------------------------------------------
# path grammar: dotted attributes and ["key"] / ['key'] lookups, mixed, keys that contain dots

SEGS = [("attr", ".a", "a"), ("dq", '["k"]', "k"), ("sq", "['k']", "k"), ("dq-dot", '["x.y"]', "x.y"), ("sq-dot", "['x.y']", "x.y"), ("attr2", ".b_2", "b_2"), ("sq-esc", "['it\\'s']", "it's")]  # last: a key written with a backslash escape (seeded change C18-E)


def make_paths():
    def h(n: int, s1: int, s2: int, s3: int, p: bool, v: int, w: int) -> str:
        assume(1 <= n <= 3)
        segs = [pick(SEGS, s1)]
        if n >= 2:
            segs.append(pick(SEGS, s2))
        if n >= 3:
            segs.append(pick(SEGS, s3))
        path = "root" + "".join(sg[1] for sg in segs)
        shape = "-".join(sg[0] for sg in segs)
        try:
            al = Alias(path, passthrough=bool(p))
        except ValueError as ex:
            check(False, "an aliased attribute follows dotted and [\"key\"] paths (also mixed)", f"C18/path/{shape}/rejected", lambda: f"Alias({path!r}): {ex!r}")

        class P:
            pass

        P.al = al
        al.__set_name__(P, "al")
        # build the target structure from the leaf up
        leaf_holder = None
        child = v
        for kind, _, name in reversed(segs):
            if kind.startswith("attr"):
                holder = In()
                setattr(holder, name, child)
            else:
                holder = {name: child}
            if leaf_holder is None:
                leaf_holder = holder
            child = holder
        o = P()
        o.root = child
        lk, _, lname = segs[-1]

        def leaf():
            return getattr(leaf_holder, lname) if lk.startswith("attr") else leaf_holder[lname]

        tag = f"C18/path/{shape}"
        try:
            got = o.al
        except Exception as ex:
            check(False, "an aliased attribute reads as the current value of its target, following dotted and [\"key\"] paths", f"{tag}/read-raises-{type(ex).__name__}", lambda: f"{path!r}: {ex!r}")
        check(got is v or got == v, "an aliased attribute reads as the current value of its target", f"{tag}/read-value", lambda: f"{path!r}: got {got!r} want {v!r}")
        o.al = w
        if p:
            check(leaf() is w or leaf() == w, "a passthrough alias forwards assignment to the target", f"{tag}/passthrough-write", lambda: f"{path!r}: target {leaf()!r} want {w!r}")
        else:
            check(leaf() is v or leaf() == v, "a local assignment shadows the target without modifying it", f"{tag}/local-write-modified-target", lambda: f"{path!r}")
            check(o.al is w or o.al == w, "a local assignment shadows the target", f"{tag}/local-write-value")
            del o.al
            check(o.al is v or o.al == v, "deleting the local assignment restores the live view", f"{tag}/delete-restores")
        return "ok"

    h.__name__ = "alias_paths"
    return h


def make_bad_paths():
    BAD = ["a.", ".b", "c[]", "c[[", "c.['d']", 'd["k"]x', "a..b", "a b", 'a["k"', "a.[\"k\"]", "a['k]"]

    def h(i: int) -> str:
        path = pick(BAD, i)
        try:
            Alias(path)
        except ValueError:
            return "rejected"
        check(False, "a string that is not a dotted / [\"key\"] path is not accepted as one", f"C18/path/malformed-accepted", lambda: repr(path))

    h.__name__ = "alias_bad_paths"
    return h


def obligations(tier):
    obs = []
    nops = 2 if tier == "quick" else 3
    T = 240 if tier == "quick" else 1500
    warm = [(sh, p, t, f, tg, 5, a, 7, b, 9, 0, 1, a == 1, False) for sh in range(4) for p in (False, True) for t in (False, True) for f in (False, True) for tg in (False, True) for a in (0, 1, 2) for b in (0, 2, 4, 6)]
    for dep, fsh, fp in [(d, s_, p_) for d in (False, True) for s_ in range(4) for p_ in (False, True)]:
        if tier == "quick" and dep and fsh in (1, 3):
            continue
        obs.append(Ob(f"C18.plain.{'deprecated' if dep else 'alias'}.shape{fsh}.{'passthrough' if fp else 'local'}.h{nops}", make_plain_step(nops, dep, fsh, fp), warm[:: (3 if not dep else 7)], f"plain class; {'DeprecatedAlias' if dep else 'Alias'}; path shape {SHAPES[fsh]!r}, passthrough={fp}; transform, fallback symbolic; initial target present/missing symbolic; history of {nops} operations from {{read, write v, delete, write target, delete target, deepcopy+read, read twice}} with symbolic selectors and values (ints, or None by a symbolic flag)", expect={"ok"}, timeout=T))
    warm_s = [(p, t, f, tg, 5, a, 7, b, 9) for p in (False, True) for t in (False, True) for f in (False, True) for tg in (False, True) for a in range(7) for b in (0, 3)]
    obs.append(Ob("C18.paths", make_paths(), [(n, a, b, c, p_, 5, 6) for n in (1, 2, 3) for a in range(len(SEGS)) for b in (0, 1, 3, 6) for c in (0, 2, 4, 6) for p_ in (False, True)], f"path grammar: root attribute followed by 1..3 segments from {[sg[1] for sg in SEGS]} (symbolic selectors): construction, read, local / passthrough write, delete; symbolic values", expect={"ok"}, timeout=T))
    obs.append(Ob("C18.paths.malformed", make_bad_paths(), [(i,) for i in range(11)], "11 malformed path strings must be refused with ValueError", expect={"rejected"}, timeout=T))
    obs.append(Ob(f"C18.spec.h2", make_spec_step(2), warm_s, "spec class with al: int = Alias('t', ...) (managed, type-checked); passthrough, transform, fallback symbolic; history of 2 operations from {read, write, delete, with_al, with_t, deepcopy, ill-typed write}", expect={"ok"}, timeout=T))
    return obs
