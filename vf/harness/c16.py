"""C16 — decoration adds exactly the documented helpers and never replaces user code.

Selector-only use of the engine (stated plainly: there is no numeric quantity in this property). The class is built and
decorated INSIDE the explored path from symbolic selectors: template, which generated name the class body occupies,
occupant kind (function / staticmethod / property / truthy value / falsy value), init/repr/eq switches, lazy/eager,
attrs / attrs_typed / attrs_skip selection, colliding singular/plural attribute pairs. The solver's role is to exhaust
the selector space (every combination is a path of the real decoration code)."""
from typing import Dict, List, Set

from spec_classes import spec_class

from vf.sym import Ob, Skip, Violation, assume, check, pick


def user_fn(self, *a, **k):
    return "user"


def new_class(body):
    """class T with the given body entries. (CrossHair's 3-argument type() realises - i.e. copies - the namespace, which
    would break the identity checks below; an empty class populated with setattr keeps the very objects.)"""
    cls = type("T", (), {})
    for k, v in body.items():
        if k in ("__module__", "__qualname__"):
            continue
        setattr(cls, k, v)
    return cls


def occupant(kind):
    if kind == "function":
        return user_fn
    if kind == "staticmethod":
        return staticmethod(user_fn)
    if kind == "property":
        return property(user_fn)
    if kind == "value":
        return "plain value"
    if kind == "falsy-none":
        return None
    if kind == "falsy-zero":
        return 0
    raise AssertionError(kind)


KINDS = ["function", "staticmethod", "property", "value", "falsy-none", "falsy-zero"]

# template: annotations, defaults, documented helper names
TEMPLATES = {
    "scalars": dict(ann={"x": int, "s": str}, dflt={"x": 0, "s": "a"}, scalar=["x", "s"], coll={}),
    "containers": dict(ann={"x": int, "nums": List[int], "opts": Dict[str, int], "vals": Set[int]}, dflt={"x": 0, "nums": [], "opts": {}, "vals": set()}, scalar=["x", "nums", "opts", "vals"], coll={"nums": "num", "opts": "opt", "vals": "val"}),
    "private": dict(ann={"x": int, "_p": int, "tags": List[str]}, dflt={"x": 0, "_p": 1, "tags": []}, scalar=["x", "tags"], coll={"tags": "tag"}),
}
TOP = ["update", "transform", "reset"]
DUNDER = ["__init__", "__repr__", "__eq__"]


def documented(t):
    names = []
    for a in t["scalar"]:
        names += [f"with_{a}", f"update_{a}", f"transform_{a}", f"reset_{a}"]
    for a, sing in t["coll"].items():
        names += [f"with_{sing}", f"update_{sing}", f"transform_{sing}", f"without_{sing}"]
    return names + TOP


SWITCHES = [(True, True, True), (False, True, True), (True, False, True), (True, True, False), (False, False, False)]


def make_occupied(tname, kind):
    """kind: occupant kind, or None for 'no generated name occupied'"""
    t = TEMPLATES[tname]
    doc = documented(t)
    pool = doc + DUNDER

    def h(ni: int, sw: int, lazy: bool) -> str:
        init_, repr_, eq_ = pick(SWITCHES, sw)
        occ = kind is not None
        body = {"__annotations__": {**t["ann"]}, "__module__": __name__, "__qualname__": "T"}
        body.update(t["dflt"])

        def helper_method(self):
            return "mine"

        body["helper_method"] = helper_method
        body["CONST"] = ("c",)
        occupied = None
        if occ:
            occupied = pick(pool, ni)
            body[occupied] = occupant(kind)
        original = {**body}
        cls = new_class(body)
        cls = spec_class(init=bool(init_), repr=bool(repr_), eq=bool(eq_), bootstrap=not lazy)(cls)
        if lazy:
            cls.__spec_class__  # first trigger
        tag = f"C16/{tname}"

        def identities(stage):
            for n, v in original.items():
                if n in ("__annotations__", "__module__", "__qualname__"):
                    continue
                if n not in cls.__dict__ and n in ("__module__", "__qualname__"):
                    continue
                check(n in cls.__dict__ and cls.__dict__[n] is v, "decorating a class never replaces anything defined in that class's own body", f"{tag}/replaced-{stage}/{'occupied' if n == occupied else 'body'}-{type(v).__name__}", lambda: f"{n}: {v!r} -> {cls.__dict__.get(n)!r}")

        identities("after-decoration")
        # (b) generated constructor / repr / eq stay reachable under their __spec_class_* names
        for n in ("__spec_class_init__", "__spec_class_repr__", "__spec_class_eq__"):
            check(callable(getattr(cls, n, None)), "the generated constructor, repr and equality stay reachable under their __spec_class_* names", f"{tag}/missing-{n}")
        # (c) exactly the documented helpers appear
        added = sorted(n for n in cls.__dict__ if n not in original and not n.startswith("_"))
        want = sorted(n for n in doc if n != occupied)
        check(added == want, "exactly the documented helpers appear (four scalar helpers per managed attribute, four element helpers per list/dict/set attribute, three top-level helpers)", f"{tag}/helper-set", lambda: f"extra {sorted(set(added) - set(want))} missing {sorted(set(want) - set(added))}")
        for n, on in (("__init__", init_), ("__repr__", repr_), ("__eq__", eq_)):
            if n == occupied:
                continue
            present = n in cls.__dict__
            check(present == bool(on), "init/repr/eq switches", f"{tag}/switch-{n}", lambda: f"{n}: present={present} switch={on}")
        # (d) private attributes are never managed
        if "_p" in t["ann"]:
            check(not any(n.endswith("__p") or n.endswith("_p") and n.startswith(("with_", "update_", "transform_", "reset_")) for n in cls.__dict__ if n not in original), "private attributes are never managed", f"{tag}/private-managed")
        # first use of every helper (lazy descriptors dissolve into the built function): identities must survive
        for n in want:
            getattr(cls, n)
        inst = None
        if "__init__" != occupied:
            try:
                inst = cls()
            except Exception as ex:
                check(not init_ or occupied is not None, "constructing the decorated class", f"{tag}/construct-{type(ex).__name__}", lambda: repr(ex))
        if inst is not None:
            for n in want:
                getattr(inst, n)
        identities("after-first-use")
        added2 = sorted(n for n in cls.__dict__ if n not in original and not n.startswith("_"))
        check(added2 == want, "the helper set is stable after first use", f"{tag}/helper-set-after-use", lambda: f"{added2!r}")
        return "ok"

    h.__name__ = f"occupied_{tname}"
    return h


def make_selection():
    def h(sel: int, lazy: bool) -> str:
        body = {"__annotations__": {"x": int, "nums": List[int], "y": str}, "x": 0, "nums": [], "y": "a", "z": 5}
        kind = pick(["default", "attrs", "attrs_typed", "attrs_skip", "attrs+skip", "attrs+emptyskip", "typed+emptyskip"], sel)
        kw = {"default": {}, "attrs": {"attrs": ["z"]}, "attrs_typed": {"attrs_typed": {"z": List[str]}}, "attrs_skip": {"attrs_skip": ["x"]}, "attrs+skip": {"attrs": ["z"], "attrs_skip": ["y"]}, "attrs+emptyskip": {"attrs": ["z"], "attrs_skip": []}, "typed+emptyskip": {"attrs_typed": {"z": List[str]}, "attrs_skip": []}}[kind]
        managed = {"default": ["x", "nums", "y"], "attrs": ["z"], "attrs_typed": ["z"], "attrs_skip": ["nums", "y"], "attrs+skip": ["x", "nums", "z"], "attrs+emptyskip": ["x", "nums", "y", "z"], "typed+emptyskip": ["x", "nums", "y", "z"]}[kind]
        colls = {"nums": "num"} if "nums" in managed else {}
        if kind in ("attrs_typed", "typed+emptyskip"):
            colls = dict(colls, z="z_item")
        original = {**body}
        cls = spec_class(bootstrap=not lazy, **kw)(new_class(body))
        if lazy:
            cls.__spec_class__
        want = []
        for a in managed:
            want += [f"with_{a}", f"update_{a}", f"transform_{a}", f"reset_{a}"]
        for a, s in colls.items():
            want += [f"with_{s}", f"update_{s}", f"transform_{s}", f"without_{s}"]
        want = sorted(want + TOP)
        added = sorted(n for n in cls.__dict__ if n not in original and not n.startswith("_"))
        check(added == want, "attrs / attrs_typed / attrs_skip select exactly the managed attributes", f"C16/selection/{kind}", lambda: f"extra {sorted(set(added) - set(want))} missing {sorted(set(want) - set(added))}")
        return "ok"

    return h


def make_collision():
    def h(sel: int, lazy: bool) -> str:
        kind = pick(["item/items", "x/xs", "fallback-taken", "no-collision", "inherited", "two-collections", "inherited-collection"], sel)
        if kind in ("two-collections", "inherited-collection"):
            # the singular forms of two collections coincide / the collection is inherited and the scalar is new:
            # either decoration raises, or both families exist under distinct names and address their own attribute
            try:
                if kind == "two-collections":
                    cls = spec_class(bootstrap=not lazy)(new_class({"__annotations__": {"x": List[int], "x_items": Dict[str, int]}}))
                else:
                    par = spec_class(bootstrap=not lazy)(new_class({"__annotations__": {"items": List[int]}, "items": []}))
                    cls = type("Child", (par,), {})
                    cls.__annotations__ = {"item": int}
                    cls.item = 0
                    cls = spec_class(bootstrap=not lazy)(cls)
                cls.__spec_class__
            except (Violation, Skip):
                raise
            except RuntimeError:
                return "RuntimeError"
            if kind == "two-collections":
                o = cls(x=[1], x_items={"a": 1})
                try:
                    r = o.with_x_item(5)
                except (Violation, Skip):
                    raise
                except Exception as ex:
                    check(False, "a singular-name collision falls back to <attr>_item or raises rather than shadowing another attribute's helpers", "C16/collision/two-collections/shadowed", lambda: f"with_x_item(5) on the list attribute x: {ex!r}")
                check(r.x == [1, 5] and r.x_items == {"a": 1}, "a singular-name collision falls back to <attr>_item or raises rather than shadowing another attribute's helpers", "C16/collision/two-collections/shadowed", lambda: f"with_x_item(5) -> {r!r}")
                check(hasattr(cls, "with_x_items_item"), "... the second collection falls back to <attr>_item", "C16/collision/two-collections/no-fallback", lambda: f"{sorted(n for n in dir(cls) if n.startswith('with_'))}")
                r2 = o.with_x_items_item("b", 2)
                check(r2.x_items == {"a": 1, "b": 2} and r2.x == [1], "the fallback element helpers address the second collection", "C16/collision/two-collections/fallback-broken")
            else:
                o = cls(items=[2], item=1)
                r = o.with_item(5)
                check(r.item == 5 and r.items == [2], "the scalar helpers of the new attribute address it", "C16/collision/inherited-collection/scalar-broken", lambda: f"{r!r}")
                check(hasattr(cls, "with_items_item"), "a singular-name collision falls back to <attr>_item or raises rather than shadowing another attribute's helpers (collection inherited, scalar new)", "C16/collision/inherited-collection/no-fallback", lambda: f"{sorted(n for n in dir(cls) if n.startswith(('with_', 'without_')))}")
                r2 = o.with_items_item(7).without_items_item(2)
                check(r2.items == [7] and r2.item == 1, "the fallback element helpers address the inherited collection", "C16/collision/inherited-collection/fallback-broken")
                p_ = par(items=[1]).with_item(3)
                check(p_.items == [1, 3], "the parent class keeps its own element helpers", "C16/collision/inherited-collection/parent-affected", lambda: f"{p_!r}")
            return "ok"
        if kind == "inherited":
            # the colliding scalar attribute is inherited from a spec parent
            par = spec_class(bootstrap=not lazy)(new_class({"__annotations__": {"item": int}, "item": 1}))
            child = type("Child", (par,), {})
            child.__annotations__ = {"items": List[int]}
            child.items = []
            child = spec_class(bootstrap=not lazy)(child)
            o = child(item=1, items=[2])
            names = sorted(n for n in child.__dict__ if not n.startswith("_") and n.startswith(("with_", "update_", "transform_", "without_")))
            check("with_items_item" in names and "with_item" not in names, "a singular-name collision with an INHERITED attribute falls back to <attr>_item rather than shadowing the inherited helpers", "C16/collision/inherited/helper-set", lambda: f"{names!r}")
            r = o.with_item(5)
            check(r.item == 5 and r.items == [2], "the inherited scalar helpers are not shadowed", "C16/collision/inherited/shadowed", lambda: f"{r!r}")
            r2 = o.with_items_item(7)
            check(r2.items == [2, 7], "the fallback element helpers address the collection", "C16/collision/inherited/fallback-broken")
            return "ok"
        ann = {"item/items": {"item": int, "items": List[int]}, "x/xs": {"xs": List[int], "x": int}, "fallback-taken": {"item": int, "items": List[int], "items_item": int}, "no-collision": {"item": int, "things": List[int]}}[kind]
        body = {"__annotations__": {**ann}}
        try:
            cls = spec_class(bootstrap=not lazy)(new_class(body))
            if lazy:
                cls.__spec_class__
            exc = None
        except (Violation, Skip):
            raise
        except Exception as ex:
            cls, exc = None, ex
        if kind == "fallback-taken":
            check(isinstance(exc, RuntimeError), "a singular-name collision whose fallback is taken raises rather than shadowing", "C16/collision/fallback-taken-accepted", lambda: repr(exc))
            return "RuntimeError"
        check(exc is None, "decoration must not raise", f"C16/collision/{kind}/unexpected-{type(exc).__name__}", lambda: repr(exc))
        scal = [a for a in ann]
        coll = {"item/items": {"items": "items_item"}, "x/xs": {"xs": "xs_item"}, "no-collision": {"things": "thing"}}[kind]
        want = []
        for a in scal:
            want += [f"with_{a}", f"update_{a}", f"transform_{a}", f"reset_{a}"]
        for a, s in coll.items():
            want += [f"with_{s}", f"update_{s}", f"transform_{s}", f"without_{s}"]
        want = sorted(want + TOP)
        added = sorted(n for n in cls.__dict__ if not n.startswith("_"))
        check(added == want, "a singular-name collision falls back to <attr>_item rather than shadowing another attribute's helpers", f"C16/collision/{kind}/helper-set", lambda: f"extra {sorted(set(added) - set(want))} missing {sorted(set(want) - set(added))}")
        # the scalar helper of the colliding attribute still addresses the scalar attribute
        if kind == "item/items":
            o = cls(item=1, items=[2])
            r = o.with_item(5)
            check(r.item == 5 and r.items == [2], "the scalar helpers are not shadowed by element helpers", "C16/collision/shadowed")
            r2 = o.with_items_item(7)
            check(r2.items == [2, 7] and r2.item == 1, "the fallback element helpers address the collection", "C16/collision/fallback-broken")
        return "ok"

    return h


def make_super():
    """a subclass defines a method named like a generated helper of its spec parent and calls super(): it must keep its
    identity also after the helper has been used (lazy descriptors dissolve onto the OWNING class)."""

    def h(sel: int, lazy: bool, spec_sub: bool) -> str:
        name = pick(["with_x", "update_x", "transform_x", "reset_x", "with_num", "without_num", "update", "transform", "reset"], sel)
        par = spec_class(bootstrap=not lazy)(new_class({"__annotations__": {"x": int, "nums": List[int]}, "x": 0, "nums": [1]}))
        calls = []

        def mine(self, *a, **k):
            calls.append(1)
            return getattr(super(sub, self), name)(*a, **k)

        sub = type("Sub", (par,), {})
        setattr(sub, name, mine)
        if spec_sub:
            sub.__annotations__ = {"y": int}
            sub.y = 0
            sub = spec_class(bootstrap=not lazy)(sub)
        o = sub()
        args = {"with_x": (3,), "update_x": (3,), "transform_x": (lambda v: v + 1,), "reset_x": (), "with_num": (5,), "without_num": (1,), "update": (), "transform": (), "reset": ()}[name]
        for _ in range(2):
            getattr(o, name)(*args)
            check(sub.__dict__.get(name) is mine, "a method defined in the class's own body keeps its identity after the inherited helper has been used", f"C16/super/replaced-{name}", lambda: f"{sub.__dict__.get(name)!r}")
        check(len(calls) == 2, "the user's method is the one that runs", f"C16/super/bypassed-{name}")
        return "ok"

    return h


def obligations(tier):
    obs = []
    T = 480 if tier == "quick" else 900  # (the containers template needs ~300 s on a loaded machine)
    for tname in TEMPLATES:
        n = len(documented(TEMPLATES[tname])) + 3
        for kind in [None] + KINDS:
            if tier == "quick" and tname == "private" and kind not in (None, "function", "falsy-none"):
                continue
            warm = [(i, sw, lz) for i in range(0, n, 4) for sw in (0, 4) for lz in (False, True)]
            obs.append(Ob(f"C16.occupied.{tname}.{kind or 'none'}", make_occupied(tname, kind), warm, f"template {tname}: the class body defines {'one of the ' + str(n) + ' generated names itself as a ' + kind if kind else 'no generated name'}; which name, the init/repr/eq switch combination (5) and lazy/eager are symbolic selectors; identities checked after decoration and after first use of every helper. Selector-only: finite space exhausted through the solver, no numeric quantity.", expect={"ok"}, timeout=T))
    obs.append(Ob("C16.selection", make_selection(), [(s, lz) for s in range(7) for lz in (False, True)], "attrs / attrs_typed / attrs_skip selections (incl. the documented empty attrs_skip idiom) x lazy/eager (selector-only)", expect={"ok"}, timeout=T))
    obs.append(Ob("C16.super", make_super(), [(s_, lz, sp) for s_ in range(9) for lz in (False, True) for sp in (False, True)], "plain or spec subclass defining a method named like one of 9 generated helpers of its spec parent and delegating to super(); called twice; lazy/eager (selector-only)", expect={"ok"}, timeout=T))
    obs.append(Ob("C16.collision", make_collision(), [(s, lz) for s in range(7) for lz in (False, True)], "attribute-name pairs whose singular/plural forms collide (same class; scalar inherited from a spec parent; two collections with one singular form; collection inherited and scalar new), fallback free or taken, x lazy/eager (selector-only)", expect={"ok", "RuntimeError"}, timeout=T))
    return obs
