"""C15 — the run-time type check accepts a value exactly when it conforms structurally.

For every annotation of the generated type language (depth <= 3) the harness builds a value from a pool of value
SHAPES (selected by a bounded symbolic index) whose leaves are symbolic Union[int, str, float, bool, None] values,
and asserts check_type(v, T) == conforms(v, T) (independent structural reference) and that check_type never raises.
bounded(...) annotations are created inside the path with SYMBOLIC bounds so inclusive/exclusive off-by-one errors are
decided at the boundary value.
"""
import types
import typing
from typing import Any, Dict, List, Literal, Optional, Set, Tuple, Type, Union

from spec_classes import spec_class
from spec_classes.types import bounded, validated
from spec_classes.utils.type_checking import check_type

from vf.sym import Ob, assume, check, pick


class UserCls:
    pass


class UserSub(UserCls):
    pass


@spec_class(bootstrap=True)
class SpecCls:
    a: int = 0


USER = UserCls()
USERSUB = UserSub()
SPEC = SpecCls()
NoneType = type(None)

Leaf = Union[int, str, float, bool, None]

# --------------------------------------------------------------------------------------------------------------------
# reference checker (shares no code with the library)


class B:
    """marker for a bounded(...) annotation in the reference language."""

    def __init__(self, num, ge=None, gt=None, le=None, lt=None):
        self.num, self.ge, self.gt, self.le, self.lt = num, ge, gt, le, lt


class V:
    """marker for validated(pred)."""

    def __init__(self, pred):
        self.pred = pred


def conforms(v, T):
    if T is Any:
        return True
    if isinstance(T, B):
        if not conforms(v, T.num):
            return False
        if T.ge is not None and not v >= T.ge:
            return False
        if T.gt is not None and not v > T.gt:
            return False
        if T.le is not None and not v <= T.le:
            return False
        if T.lt is not None and not v < T.lt:
            return False
        return True
    if isinstance(T, V):
        return bool(T.pred(v))
    if T is None or T is NoneType:
        return v is None
    if T is float:
        return isinstance(v, (int, float))  # int accepted where float is declared (bool is an int)
    origin = typing.get_origin(T)
    args = typing.get_args(T)
    if origin is Union or origin is types.UnionType:
        return any(conforms(v, a) for a in args)
    if origin is Literal:
        return any(v == a for a in args)
    if origin in (list, set):
        return isinstance(v, origin) and all(conforms(x, args[0]) for x in v)
    if origin is dict:
        return isinstance(v, dict) and all(conforms(k, args[0]) and conforms(x, args[1]) for k, x in v.items())
    if origin is tuple:
        if not isinstance(v, tuple):
            return False
        if len(args) == 2 and args[1] is Ellipsis:
            return all(conforms(x, args[0]) for x in v)
        return len(v) == len(args) and all(conforms(x, a) for x, a in zip(v, args))
    if origin is type:
        if not isinstance(v, type):
            return False
        (a,) = args
        if a is Any:
            return True
        if typing.get_origin(a) in (Union, types.UnionType):
            return any(issubclass(v, typing.get_origin(x) or x) for x in typing.get_args(a))
        return issubclass(v, typing.get_origin(a) or a)  # Type[List[int]]: only the origin can be decided at run time
    if isinstance(T, type):
        return isinstance(v, T)
    raise AssertionError(f"reference checker: annotation outside the language: {T!r}")


def realise_annotation(T, b):
    """Turn the reference annotation (with B/V markers) into the library annotation; b = symbolic bounds tuple."""
    if isinstance(T, B):
        kw = {k: getattr(T, k) for k in ("ge", "gt", "le", "lt") if getattr(T, k) is not None}
        return bounded(T.num, **kw)
    if isinstance(T, V):
        return validated(T.pred, name="v")
    origin = typing.get_origin(T)
    if origin is None:
        return T
    args = typing.get_args(T)
    if not any(_has_marker(a) for a in args):
        return T
    new = tuple(realise_annotation(a, b) if a is not Ellipsis else a for a in args)
    if origin is Union:
        return Union[new]
    if origin is list:
        return List[new[0]]
    if origin is set:
        return Set[new[0]]
    if origin is dict:
        return Dict[new[0], new[1]]
    if origin is tuple:
        return Tuple[new]
    raise AssertionError(T)


def _has_marker(T):
    if isinstance(T, (B, V)):
        return True
    return any(_has_marker(a) for a in typing.get_args(T) if a is not Ellipsis)


# --------------------------------------------------------------------------------------------------------------------
# value shapes: functions of (l0, l1, l2, h) -> value.  l* symbolic leaves, h a hashable element from HPOOL.

HPOOL = [0, 1, "a", "", None, True, 1.5, "r"]
CLSPOOL = [int, bool, str, float, UserCls, UserSub, SpecCls, object, NoneType, list, dict]

SHAPES = [
    ("leaf", lambda l0, l1, l2, h, c: l0, 1),
    ("[]", lambda l0, l1, l2, h, c: [], 0),
    ("[l]", lambda l0, l1, l2, h, c: [l0], 1),
    ("[l,l]", lambda l0, l1, l2, h, c: [l0, l1], 2),
    ("set()", lambda l0, l1, l2, h, c: set(), 0),
    ("{h}", lambda l0, l1, l2, h, c: {h}, 0),
    ("{}", lambda l0, l1, l2, h, c: {}, 0),
    ("{h:l}", lambda l0, l1, l2, h, c: {h: l0}, 1),
    ("{'k':l,'j':l}", lambda l0, l1, l2, h, c: {"k": l0, "j": l1}, 2),
    ("()", lambda l0, l1, l2, h, c: (), 0),
    ("(l,)", lambda l0, l1, l2, h, c: (l0,), 1),
    ("(l,l)", lambda l0, l1, l2, h, c: (l0, l1), 2),
    ("(l,l,l)", lambda l0, l1, l2, h, c: (l0, l1, l2), 3),
    ("[[l]]", lambda l0, l1, l2, h, c: [[l0]], 1),
    ("[(l,l)]", lambda l0, l1, l2, h, c: [(l0, l1)], 2),
    ("{'k':[l]}", lambda l0, l1, l2, h, c: {"k": [l0]}, 1),
    ("[{h:l}]", lambda l0, l1, l2, h, c: [{h: l0}], 1),
    ("([l],l)", lambda l0, l1, l2, h, c: ([l0], l1), 2),
    ("class", lambda l0, l1, l2, h, c: c, 0),
    ("[class]", lambda l0, l1, l2, h, c: [c], 0),
    ("user", lambda l0, l1, l2, h, c: USER, 0),
    ("usersub", lambda l0, l1, l2, h, c: USERSUB, 0),
    ("spec", lambda l0, l1, l2, h, c: SPEC, 0),
    ("[user,l]", lambda l0, l1, l2, h, c: [USER, l0], 1),
    ("(l,user)", lambda l0, l1, l2, h, c: (l0, USER), 1),
    ("bytes", lambda l0, l1, l2, h, c: b"x", 0),
]
QUICK_SHAPES = {"([l],l)", "leaf", "[]", "[l]", "[l,l]", "{h}", "{}", "{h:l}", "()", "(l,)", "(l,l)", "(l,l,l)", "[[l]]", "{'k':[l]}", "class", "user", "usersub", "spec", "bytes"}
BOUNDED_SHAPES = {"leaf", "[l]", "(l,l)", "{h:l}", "[]", "class"}
USES_H = {"{h}", "{h:l}", "[{h:l}]"}
USES_C = {"class", "[class]"}


FPOOL = [0.0, -0.5, 0.5, 1.0, -1.0, 1.5, 2.0, -2.0, 2.5, float("inf"), float("-inf")]


def mkleaf(k, i, s, fi, rich=True):
    """symbolic leaf: kind selector k (bounded symbolic), payloads unbounded symbolic. Built only for leaves the shape uses
    (a Union-typed parameter would fork on its alternative at argument creation, used or not)."""
    assume(0 <= k <= (5 if rich else 3))
    if not rich:
        # second leaf of a multi-leaf shape: {int, str, 1.5, None} (the first leaf carries the full diversity)
        if k == 2:
            return 1.5
        if k == 3:
            return None
    if k == 0:
        return i
    if k == 1:
        return s
    if k == 2:
        return pick(FPOOL, fi) if rich == "full" else 1.5  # concrete float pool incl. every integer bound value, +-0.5 around them and +-inf
    if k == 3:
        return True
    if k == 4:
        return False
    return None


def make_harness(label, Tref, nbounds=0, thorough=False):
    # (two symbolic bounds in [-2,2] over ALL quick shapes did not exhaust within 15 minutes: thorough keeps the wider bound
    # range and the bounded-annotation shapes there)
    shapes = [sh for sh in SHAPES if (thorough and not nbounds) or (sh[0] in BOUNDED_SHAPES if nbounds else sh[0] in QUICK_SHAPES) or (thorough and nbounds == 1 and sh[0] in QUICK_SHAPES)]
    blo, bhi = (-2, 2) if (nbounds == 1 or thorough) else (-1, 1)
    rich0 = lambda nleaves: "full" if (nleaves == 1 or thorough) else True

    """Tref: reference annotation, or a function(b0, b1) -> reference annotation when bounds are symbolic."""

    def h(sel: int, k0: int, i0: int, s0: str, f0: int, k1: int, i1: int, s1: str, f1: int, hi: int, ci: int, b0: int, b1: int) -> str:
        name, build, nleaves = pick(shapes, sel)
        l0 = l1 = None
        if nleaves >= 1:
            l0 = mkleaf(k0, i0, s0, f0, rich=rich0(nleaves))
        if nleaves >= 2:
            l1 = mkleaf(k1, i1, s1, f1, rich=thorough)
        l2 = l0
        hv = cv = None
        if name in USES_H:
            hv = pick(HPOOL, hi)
        if name in USES_C:
            cv = pick(CLSPOOL, ci)
        if nbounds:
            assume(blo <= b0 <= bhi)
            if nbounds > 1:
                assume(blo <= b1 <= bhi)
            T = Tref(b0, b1)
        else:
            T = Tref
        libT = realise_annotation(T, None)
        v = build(l0, l1, l2, hv, cv)
        want = conforms(v, T)
        try:
            got = check_type(v, libT)
        except Exception as e:
            err = e
            check(False, "within the annotation language the check never raises", f"C15/{label}/raises-{type(e).__name__}", lambda: f"shape {name} value {v!r}: {err!r}")
        check(bool(got) == want, "accepted exactly when it conforms", f"C15/{label}/{'false-accept' if got else 'false-reject'}", lambda: f"shape {name} value {v!r}: check_type={got!r} conforms={want!r}")
        return "accept" if want else "reject"

    h.__name__ = "h_" + "".join(ch if ch.isalnum() else "_" for ch in label)
    return h


def _warm(nb):
    out = []
    for sel in range(6):
        for k0 in range(6):
            out.append((sel, k0, 3, "r", (sel + k0) % len(FPOOL), (k0 + sel) % 6, 0, "w", sel % len(FPOOL), sel % len(HPOOL), sel % len(CLSPOOL), 0, 1))
    return out


def annotations(tier):
    """deterministic list of (label, reference annotation or fn, nbounds)."""
    A = [
        ("Any", Any), ("int", int), ("float", float), ("str", str), ("bool", bool), ("bytes", bytes), ("None", NoneType),
        ("UserCls", UserCls), ("SpecCls", SpecCls),
        ("Literal[r,w,3]", Literal["r", "w", 3]), ("Literal[True,None]", Literal[True, None]),
    ]
    atoms = dict(A)
    out = [(n, t, 0) for n, t in A]

    def add(label, T, nb=0):
        out.append((label, T, nb))

    # depth 2
    for n in ("int", "str", "float", "Any", "None", "UserCls"):
        t = atoms[n]
        add(f"List[{n}]", List[t])
        add(f"Tuple[{n},...]", Tuple[t, ...])
    for n in ("int", "str", "bool"):
        t = atoms[n]
        add(f"Set[{n}]", Set[t])
        add(f"Optional[{n}]", Optional[t])
        add(f"Dict[str,{n}]", Dict[str, t])
    add("Dict[int,str]", Dict[int, str])
    add("Dict[Any,float]", Dict[Any, float])
    add("Tuple[int,str]", Tuple[int, str])
    add("Tuple[int]", Tuple[int])
    add("Tuple[float,float,Any]", Tuple[float, float, Any])
    add("Tuple[()]", Tuple[()])
    add("Union[int,str]", Union[int, str])
    add("Union[float,None,str]", Union[float, None, str])
    add("int|str", int | str)
    add("int|None", int | None)
    add("float|None", float | None)
    add("float|str", float | str)
    add("dict[str,float|None]", dict[str, float | None])
    add("list[int]", list[int])
    add("set[str]", set[str])
    add("dict[str,int]", dict[str, int])
    add("tuple[int,...]", tuple[int, ...])
    add("tuple[int,str]", tuple[int, str])
    for n, t in (("int", int), ("float", float), ("UserCls", UserCls), ("Any", Any), ("SpecCls", SpecCls), ("bool", bool)):
        add(f"Type[{n}]", Type[t])
    add("type[str]", type[str])
    add("Type[Union[int,str]]", Type[Union[int, str]])
    add("Type[List[int]]", Type[List[int]])
    add("Type[Dict[str,int]]", Type[Dict[str, int]])
    add("Type[Optional[int]]", Type[Optional[int]])
    add("Type[Union[List[int],str]]", Type[Union[List[int], str]])
    # bounded with symbolic bounds (incl. zero)
    for num_n, num in (("int", int), ("float", float)):
        add(f"bounded({num_n},ge=b)", lambda b0, b1, num=num: B(num, ge=b0), 1)
        add(f"bounded({num_n},gt=b)", lambda b0, b1, num=num: B(num, gt=b0), 1)
        add(f"bounded({num_n},le=b)", lambda b0, b1, num=num: B(num, le=b0), 1)
        add(f"bounded({num_n},lt=b)", lambda b0, b1, num=num: B(num, lt=b0), 1)
    add("bounded(int,ge=b,le=c)", lambda b0, b1: B(int, ge=b0, le=b1), 2)
    add("bounded(int,gt=b,lt=c)", lambda b0, b1: B(int, gt=b0, lt=b1), 2)
    add("bounded(float,ge=b,lt=c)", lambda b0, b1: B(float, ge=b0, lt=b1), 2)
    add("bounded(float,gt=b,le=c)", lambda b0, b1: B(float, gt=b0, le=b1), 2)
    add("validated(even)", V(lambda v: isinstance(v, int) and v % 2 == 0))
    # depth 3
    add("List[List[int]]", List[List[int]])
    add("List[Tuple[int,str]]", List[Tuple[int, str]])
    add("List[Optional[int]]", List[Optional[int]])
    add("Dict[str,List[int]]", Dict[str, List[int]])
    add("List[Dict[str,int]]", List[Dict[str, int]])
    add("Tuple[List[int],str]", Tuple[List[int], str])
    add("Optional[List[str]]", Optional[List[str]])
    add("Union[List[int],Dict[str,int]]", Union[List[int], Dict[str, int]])
    add("List[Union[int,str]]", List[Union[int, str]])
    add("List[Literal[r,w,3]]", List[Literal["r", "w", 3]])
    add("List[Type[int]]", List[Type[int]])
    add("List[bounded(int,ge=b)]", lambda b0, b1: List[B(int, ge=b0)], 1)
    add("Dict[str,bounded(float,gt=b)]", lambda b0, b1: Dict[str, B(float, gt=b0)], 1)
    add("Optional[bounded(int,lt=b)]", lambda b0, b1: Optional[B(int, lt=b0)], 1)
    add("Tuple[bounded(int,ge=b),bounded(int,le=c)]", lambda b0, b1: Tuple[B(int, ge=b0), B(int, le=b1)], 2)
    add("list[list[int|None]]", list[list[int | None]])
    add("dict[str,tuple[int,...]]", dict[str, tuple[int, ...]])
    if tier == "thorough":
        for n1, t1 in (("int", int), ("str", str), ("float", float), ("None", NoneType), ("bool", bool)):
            for n2, t2 in (("int", int), ("str", str), ("Any", Any), ("UserCls", UserCls)):
                add(f"Dict[{n1},{n2}]#t", Dict[t1, t2])
                add(f"Tuple[{n1},{n2}]#t", Tuple[t1, t2])
                add(f"Union[{n1},List[{n2}]]#t", Union[t1, List[t2]])
                add(f"List[Tuple[{n1},{n2}]]#t", List[Tuple[t1, t2]])
                add(f"Dict[str,Tuple[{n1},...]]#t", Dict[str, Tuple[t1, ...]])
                add(f"Optional[Dict[{n1},{n2}]]#t", Optional[Dict[t1, t2]])
        for n1, t1 in (("int", int), ("float", float)):
            add(f"List[List[bounded({n1},gt=b)]]#t", lambda b0, b1, t1=t1: List[List[B(t1, gt=b0)]], 1)
            add(f"Dict[str,List[bounded({n1},le=b)]]#t", lambda b0, b1, t1=t1: Dict[str, List[B(t1, le=b0)]], 1)
            add(f"Union[str,bounded({n1},ge=b,lt=c)]#t", lambda b0, b1, t1=t1: Union[str, B(t1, ge=b0, lt=b1)], 2)
    return out


def obligations(tier):
    obs = []
    T = 200 if tier == "quick" else 900
    quick_skip = {"List[float]", "Tuple[float,...]", "Tuple[Any,...]", "List[UserCls]", "Tuple[UserCls,...]", "Tuple[None,...]", "Set[bool]", "Dict[str,bool]", "Optional[bool]", "Type[bool]", "Type[SpecCls]", "List[None]", "Tuple[str,...]", "Dict[Any,float]", "tuple[int,str]", "set[str]", "List[Type[int]]", "Optional[List[str]]", "bounded(float,le=b)", "bounded(float,ge=b)", "bounded(int,gt=b)", "bounded(int,le=b)"}
    for label, Tref, nb in annotations(tier):
        if tier == "quick" and label in quick_skip:
            continue
        obs.append(
            Ob(
                f"C15.{label}",
                make_harness(label, Tref, nb, tier == "thorough"),
                _warm(nb),
                f"annotation {label}; value = one of {len(SHAPES) if tier == 'thorough' else (len(BOUNDED_SHAPES) if nb else len(QUICK_SHAPES))} shapes (scalar, list/set/dict/tuple of lengths 0..3, nested, classes from a pool of {len(CLSPOOL)}, user/spec instances) selected by a symbolic index, each leaf = symbolic kind selector over {int,str,float,True,False,None} with unbounded symbolic int/str payload and float payload from a pool of 11 values (all integer bound values, +-0.5 around them, +-inf; NaN excluded); a third leaf position repeats the first leaf, hashed elements from a pool of {len(HPOOL)}; bounds symbolic ints in [-2,2] ([-1,1] for two-sided bounds in the quick tier)",
                expect={"accept", "reject"} if label != "Any" else {"accept"},
                timeout=T,
                stub_repr=True,
            )
        )
    return obs
