"""C01 under E2-fault: the copy-on-write helper is cut short by an exception injected at the kf-th executed statement of
library code; kf is symbolic, so the solver decides WHICH statement (exhaustion = every executed statement of the
operation is an abort point). Receiver and arguments must be unchanged whatever the abort point."""
from vf import instrument

instrument.install()

from vf.stepcheck import make, warm  # noqa: E402
from vf.sym import Ob  # noqa: E402

QUICK = [("K1", "with", "n", True), ("K2", "with_num_index", None, True), ("K3", "update_kw", "inner", True)]
# (K2.update2_cols was tried: > 5 000 paths per shard, not exhausted within 30 min - left out rather than reported as covered)
THOROUGH = QUICK + [("K1", "update2", "n", True), ("K1", "transform", "x", True), ("K1", "reset", "n", True), ("K2", "with_num", None, True), ("K2", "update_num", None, True), ("K2", "transform_num", None, True), ("K2", "without_num", None, True), ("K2", "with_nums", None, True), ("K2", "with_opt", None, True), ("K2S", "with_val", None, True), ("K2S", "transform_val", None, True), ("K3", "with_kw", "inner", True), ("K3", "with_obj_kw", "inner", True), ("K3", "transform_kw", "inner2", True), ("K3", "update_top", "inner", True), ("K3", "reset", "inner2", True), ("K5", "with_pw_str", None, True), ("K5", "with_scores", None, True)]


def obligations(tier):
    obs = []
    KMAX = 450
    NSH = 4
    for tmpl, opname, attr, conform, sh in [(a, b, c, d, r) for (a, b, c, d) in (QUICK if tier == "quick" else THOROUGH) for r in range(NSH)]:
        obs.append(
            Ob(
                f"C01.fault.{tmpl}.{opname}{'.' + attr if attr else ''}.shard{sh}of{NSH}",
                make("C01", "eager", tmpl, opname, attr, conform, fault=KMAX, inplace_mode=False, fault_shard=(sh, NSH)),
                warm(tmpl, fault=True),
                f"E2-fault: template {tmpl}, helper {opname}{' on ' + attr if attr else ''} without _inplace; exception injected at the kf-th executed statement of spec_classes code, kf symbolic in [1,{KMAX}] with kf % {NSH} == {sh} (the shards partition the abort points) (operations execute fewer statements: the remainder is the 'completed-before-fault' path); symbolic argument values; container length <= 2",
                expect={"fault-injected"},
                timeout=600 if tier == "quick" else 1800,
                per_path=60,
            )
        )
    return obs
