"""C06 — element helpers edit list/dict/set attributes like the plain container operation.

Pre-state: a K2/K3/K4 instance built through the constructor with a symbolic container content; ONE element helper
call with symbolic addressing (index / key / value, _index/_insert, _by_index True/False/default) and symbolic
values; oracle = the plain list/dict/set operation executed on a copy of the previous content. Full content equality
(so all other elements and their order are untouched); the other attributes must be untouched too.
"""
from typing import List

from spec_classes import MISSING

from vf.grammar import FAMILIES
from vf.sym import Ob, Violation, assume, check, pick

MISS = (IndexError, KeyError, ValueError)
DKEYS = ["a", "b", "c", "d"]


class ModelMiss(Exception):
    """the plain container operation has no such target"""


def norm_index(i, n):
    if -n <= i < n:
        return i if i >= 0 else i + n
    raise ModelMiss()


# ---------------------------------------------------------------------------------------------------------------------
# list family


def list_model(lst, op, a):
    m = [x for x in lst]
    if op == "with":
        m.append(a["v"])
    elif op == "with_index":
        m[norm_index(a["i"], len(m))] = a["v"]
    elif op == "with_insert":
        m.insert(a["i"], a["v"])
    elif op in ("update", "transform", "without"):
        byi = a["by_index"]
        if byi is None:  # documented default: index unless the argument has the element type
            byi = not a["addr_is_elem"]
        if byi:
            j = norm_index(a["addr"], len(m))
        else:
            j = None
            for t, x in enumerate(m):
                if x == a["addr"]:
                    j = t
                    break
            if j is None:
                raise ModelMiss()
        if op == "update":
            m[j] = a["v"]
        elif op == "transform":
            m[j] = a["fn"](m[j])
        else:
            del m[j]
    else:
        raise AssertionError(op)
    return m


def make_list_step(fam, attr, sing, op, nmax, elem="int"):
    NS = FAMILIES[fam]

    def step(n: int, e: List[int], missing: bool, i: int, v: int, addr: int, byv: int, inplace: bool, c: int) -> str:
        assume(0 <= n <= nmax)
        assume(len(e) == nmax)
        has_default = attr in ("nums", "tags")
        if not has_default and missing:
            assume(n == 0)
            o = NS.K2()
            pre = None
        else:
            if elem == "int":
                pre = [e[t] for t in range(n)]
            else:
                for t in range(nmax):
                    assume(0 <= e[t] <= 2)
                pre = [pick(["", "a", "b"], e[t]) for t in range(n)]
            o = NS.K2(**{attr: [x for x in pre]})
        others = {x: getattr(o, x) for x in ("y", "nums", "tags", "opts") if x != attr}
        a = {}
        kw = {}
        if inplace:
            kw["_inplace"] = True

        def val(x):
            if elem == "int":
                return x
            assume(0 <= x <= 2)
            return pick(["", "a", "b"], x)

        if op == "with":
            a["v"] = val(v)
            call = lambda: getattr(o, f"with_{sing}")(a["v"], **kw)
        elif op == "with_index":
            assume(-n - 1 <= i <= n + 1)
            a["v"], a["i"] = val(v), i
            call = lambda: getattr(o, f"with_{sing}")(a["v"], _index=i, **kw)
        elif op == "with_insert":
            assume(-n - 1 <= i <= n + 1)
            a["v"], a["i"] = val(v), i
            call = lambda: getattr(o, f"with_{sing}")(a["v"], _index=i, _insert=True, **kw)
        else:
            assume(0 <= byv <= 2)
            by_index = pick([None, True, False], byv)
            if elem == "int":
                # an int argument has the element type: default addressing is by value
                a["addr"], a["addr_is_elem"] = addr, True
                if by_index is True or by_index is None and False:
                    assume(-n - 1 <= addr <= n + 1)
                if by_index is True:
                    assume(-n - 1 <= addr <= n + 1)
            else:
                # str elements: an int argument addresses by index, a str argument by value
                if by_index is True or (by_index is None and c % 2 == 0):
                    assume(-n - 1 <= addr <= n + 1)
                    a["addr"], a["addr_is_elem"] = addr, False
                    if by_index is False:
                        assume(False)
                else:
                    a["addr"], a["addr_is_elem"] = val(addr), True
                    if by_index is True:
                        assume(False)
            a["by_index"] = by_index
            if by_index is not None:
                kw["_by_index"] = by_index
            if op == "update":
                a["v"] = val(v)
                call = lambda: getattr(o, f"update_{sing}")(a["addr"], a["v"], **kw)
            elif op == "transform":
                if elem == "int":
                    a["fn"] = lambda x: x + c
                else:
                    a["fn"] = lambda x: x + "z"
                call = lambda: getattr(o, f"transform_{sing}")(a["addr"], a["fn"], **kw)
            else:
                call = lambda: getattr(o, f"without_{sing}")(a["addr"], **kw)
        try:
            want = list_model(pre or [], op, a)
            miss = False
        except ModelMiss:
            want, miss = None, True
        try:
            r = call()
            exc = None
        except Violation:
            raise
        except Exception as ex:
            r, exc = None, ex
        tag = f"C06/list-{elem}/{op}"
        if miss:
            check(exc is not None, "a missing target raises IndexError, KeyError or ValueError", f"{tag}/missing-target-accepted", lambda: f"returned {getattr(r, attr, None)!r}")
            check(isinstance(exc, MISS), "a missing target raises IndexError, KeyError or ValueError", f"{tag}/wrong-exception-{type(exc).__name__}", lambda: repr(exc))
            return "missing-target"
        check(exc is None, "the helper must not raise for an existing target", f"{tag}/unexpected-{type(exc).__name__}", lambda: repr(exc))
        if inplace:
            check(r is o, "_inplace returns the receiver", f"{tag}/inplace-identity")
        got = getattr(r, attr)
        check(isinstance(got, list) and len(got) == len(want) and all(x is y or x == y for x, y in zip(got, want)), "changes exactly the addressed element as the list operation would", f"{tag}/content", lambda: f"got {got!r} want {want!r} (pre {pre!r}, args {a!r})")
        for x, ov in others.items():
            nv = getattr(r, x)
            check(nv == ov, "other attributes untouched", f"{tag}/other-attr")
        return "ok"

    step.__name__ = f"list_{attr}_{op}"
    return step


# ---------------------------------------------------------------------------------------------------------------------
# dict family


def make_dict_step(fam, attr, sing, op, nmax):
    NS = FAMILIES[fam]

    def step(n: int, e: List[int], missing: bool, k: int, v: int, inplace: bool, c: int) -> str:
        assume(0 <= n <= nmax)
        assume(len(e) == nmax)
        if attr == "flags" and missing:
            assume(n == 0)
            o = NS.K2()
            pre = {}
        else:
            pre = {DKEYS[t]: e[t] for t in range(n)}
            o = NS.K2(**{attr: {kk: vv for kk, vv in pre.items()}})
        others = {x: getattr(o, x) for x in ("y", "nums", "tags", "opts") if x != attr}
        assume(0 <= k <= n)  # existing keys + one fresh
        key = pick(DKEYS, k) if n + 1 >= len(DKEYS) else pick(DKEYS[: n + 1], k)
        kw = {"_inplace": True} if inplace else {}
        m = {kk: vv for kk, vv in pre.items()}  # (not dict(pre): CrossHair's dict() builds its own map type)
        miss = False
        if op == "with":
            m[key] = v
            call = lambda: getattr(o, f"with_{sing}")(key, v, **kw)
        elif op == "update":
            if key in m:
                m[key] = v
            else:
                miss = True
            call = lambda: getattr(o, f"update_{sing}")(key, v, **kw)
        elif op == "transform":
            if key in m:
                m[key] = m[key] * 2 + c
            else:
                miss = True
            call = lambda: getattr(o, f"transform_{sing}")(key, lambda x: x * 2 + c, **kw)
        else:
            if key in m:
                del m[key]
            else:
                miss = True
            call = lambda: getattr(o, f"without_{sing}")(key, **kw)
        try:
            r = call()
            exc = None
        except Violation:
            raise
        except Exception as ex:
            r, exc = None, ex
        tag = f"C06/dict/{op}"
        if miss:
            check(exc is not None, "a missing key raises", f"{tag}/missing-target-accepted", lambda: f"{getattr(r, attr, None)!r}")
            check(isinstance(exc, MISS), "a missing key raises IndexError, KeyError or ValueError", f"{tag}/wrong-exception-{type(exc).__name__}", lambda: repr(exc))
            return "missing-target"
        check(exc is None, "the helper must not raise for an existing target", f"{tag}/unexpected-{type(exc).__name__}", lambda: repr(exc))
        if inplace:
            check(r is o, "_inplace returns the receiver", f"{tag}/inplace-identity")
        got = getattr(r, attr)
        check(isinstance(got, dict) and list(got.keys()) == list(m.keys()) and all(got[x] is m[x] or got[x] == m[x] for x in m), "assign / transform / delete exactly the addressed key, order of the others untouched", f"{tag}/content", lambda: f"got {got!r} want {m!r}")
        for x, ov in others.items():
            check(getattr(r, x) == ov, "other attributes untouched", f"{tag}/other-attr")
        return "ok"

    step.__name__ = f"dict_{attr}_{op}"
    return step


# ---------------------------------------------------------------------------------------------------------------------
# set family (elements are hashed: enumerated by the solver in [0, 3]; 0 is falsy)


def make_set_step(fam, attr, sing, op, nmax):
    NS = FAMILIES[fam]

    def step(n: int, e: List[int], missing: bool, x: int, v: int, inplace: bool) -> str:
        assume(0 <= n <= nmax)
        assume(len(e) == nmax)
        for t in range(nmax):
            assume(0 <= e[t] <= 3)
        if attr == "marks" and missing:
            assume(n == 0)
            o = NS.K2()
            pre = set()
        else:
            pre = {e[t] for t in range(n)}
            o = NS.K2(**{attr: {x for x in pre}})
        assume(0 <= x <= 3)
        kw = {"_inplace": True} if inplace else {}
        m = {x for x in pre}
        miss = False
        if op == "with":
            m.add(x)
            call = lambda: getattr(o, f"with_{sing}")(x, **kw)
        elif op == "update":
            assume(0 <= v <= 3)
            if x in m:
                m.discard(x)
                m.add(v)
            else:
                miss = True
            call = lambda: getattr(o, f"update_{sing}")(x, v, **kw)
        elif op == "transform":
            assume(0 <= v <= 1)
            if x in m:
                m.discard(x)
                m.add(x + v)
            else:
                miss = True
            call = lambda: getattr(o, f"transform_{sing}")(x, lambda t: t + v, **kw)
        else:
            if x in m:
                m.discard(x)
            else:
                miss = True
            call = lambda: getattr(o, f"without_{sing}")(x, **kw)
        try:
            r = call()
            exc = None
        except Violation:
            raise
        except Exception as ex:
            r, exc = None, ex
        tag = f"C06/set/{op}"
        if miss:
            check(exc is not None, "a missing element raises", f"{tag}/missing-target-accepted", lambda: f"{getattr(r, attr, None)!r}")
            check(isinstance(exc, MISS), "a missing element raises IndexError, KeyError or ValueError", f"{tag}/wrong-exception-{type(exc).__name__}", lambda: repr(exc))
            return "missing-target"
        check(exc is None, "the helper must not raise for an existing target", f"{tag}/unexpected-{type(exc).__name__}", lambda: repr(exc))
        if inplace:
            check(r is o, "_inplace returns the receiver", f"{tag}/inplace-identity")
        got = getattr(r, attr)
        check(isinstance(got, set) and got == m, "add / replace by transformed value / remove exactly the addressed element", f"{tag}/content", lambda: f"got {got!r} want {m!r} (pre {pre!r}, x={x!r}, v={v!r})")
        return "ok"

    step.__name__ = f"set_{attr}_{op}"
    return step


# ---------------------------------------------------------------------------------------------------------------------
# spec-class elements (K3.kids: List[Inner], K3.by_name: Dict[str, Inner], K4.items / bag / lst of keyed Item)


def make_spec_step(fam, attr, op, nmax):
    NS = FAMILIES[fam]
    KEYS = ["a", "b", "c"]

    def step(n: int, e: List[int], k: int, v: int, i: int, inplace: bool) -> str:
        assume(0 <= n <= nmax)
        assume(len(e) == nmax)
        kw = {"_inplace": True} if inplace else {}
        tag = f"C06/spec-{attr}/{op}"
        if attr == "kids":
            o = NS.K3(inner=NS.Inner(), kids=[NS.Inner(a=e[t]) for t in range(n)])
            pre = [e[t] for t in range(n)]
            if op == "with_kw":  # keywords build the element
                r = o.with_kid(a=v, **kw)
                want = pre + [v]
            elif op == "update_kw":  # keywords update the addressed element
                assume(0 <= i < n)
                r = o.update_kid(i, a=v, **kw)
                want = [x for x in pre]
                want[i] = v
            elif op == "transform_kw":
                assume(0 <= i < n)
                r = o.transform_kid(i, a=lambda t: t + v, **kw)
                want = [x for x in pre]
                want[i] = want[i] + v
            else:
                assume(-n <= i < n)
                r = o.without_kid(i, **kw)
                want = [x for x in pre]
                del want[i]
            got = [x.a for x in r.kids]
            check(len(got) == len(want) and all(x is y or x == y for x, y in zip(got, want)), "keywords build or update the element; others untouched", f"{tag}/content", lambda: f"{got!r} vs {want!r}")
            check(all(x.tags == [] for x in r.kids), "other attributes of elements untouched", f"{tag}/elem-other")
            return "ok"
        if attr == "by_name":
            pre = {KEYS[t]: e[t] for t in range(n)}
            o = NS.K3(inner=NS.Inner(), by_name={kk: NS.Inner(a=x) for kk, x in pre.items()})
            assume(0 <= k <= n)
            key = pick(KEYS[: n + 1], k)
            m = {kk: vv for kk, vv in pre.items()}
            miss = False
            if op == "with_kw":
                r_call = lambda: o.with_by_name_item(key, a=v, **kw)
                m[key] = v
            elif op == "update_kw":
                r_call = lambda: o.update_by_name_item(key, a=v, **kw)
                if key in m:
                    m[key] = v
                else:
                    miss = True
            else:
                r_call = lambda: o.without_by_name_item(key, **kw)
                if key in m:
                    del m[key]
                else:
                    miss = True
            try:
                r = r_call()
                exc = None
            except Exception as ex:
                r, exc = None, ex
            if miss:
                check(isinstance(exc, MISS), "a missing key raises", f"{tag}/missing-target", lambda: repr(exc))
                return "missing-target"
            check(exc is None, "must not raise", f"{tag}/unexpected-{type(exc).__name__}", lambda: repr(exc))
            got = {kk: x.a for kk, x in r.by_name.items()}
            check(list(got) == list(m) and all(got[x] is m[x] or got[x] == m[x] for x in m), "keywords build or update the element under the key", f"{tag}/content", lambda: f"{got!r} vs {m!r}")
            return "ok"
        # keyed items (K4)
        raw = [(KEYS[t], e[t]) for t in range(n)]
        mk = lambda: [NS.Item(kk, v=x) for kk, x in raw]
        # the template's item preparer for `items` replaces items with a negative payload by a new Item(k, v=0)
        norm = (lambda x: 0 if x < 0 else x) if attr == "items" else (lambda x: x)
        pre = [(kk, norm(x)) for kk, x in raw]
        v_in = v  # (the item preparer sees the incoming KEY, before the element is built / updated from the keywords)
        if attr == "items":
            o = NS.K4(items=mk())
        elif attr == "bag":
            o = NS.K4(bag=mk())
        else:
            o = NS.K4(lst=mk())
        sing = {"items": "item", "bag": "bag_item", "lst": "lst_item"}[attr]
        assume(0 <= k <= n)
        key = pick(KEYS[: n + 1], k)
        m = [x for x in pre]
        idx = None
        for t, (kk, _) in enumerate(m):
            if kk == key:
                idx = t
        miss = False
        if op == "with_key":  # a bare key is promoted to a keyed element
            call = lambda: getattr(o, f"with_{sing}")(key, **kw)
            if idx is None or attr == "lst":
                m.append((key, 0))
            elif attr == "items":
                miss = True  # KeyedList: duplicate key -> ValueError
            else:
                m[idx] = (key, 0)  # KeyedSet: most recently added item under the key
        elif op == "with_key_kw":
            call = lambda: getattr(o, f"with_{sing}")(key, v=v_in, **kw)
            if idx is None or attr == "lst":
                m.append((key, v))
            elif attr == "items":
                miss = True
            else:
                m[idx] = (key, v)
        elif op == "update_key_kw":
            if attr == "lst":
                assume(0 <= i < n)
                call = lambda: getattr(o, f"update_{sing}")(i, v=v_in, **kw)
                m[i] = (m[i][0], v)
            else:
                call = lambda: getattr(o, f"update_{sing}")(key, v=v_in, **kw)
                if idx is None:
                    miss = True
                else:
                    m[idx] = (key, v)
        else:  # without by key
            if attr == "lst":
                assume(0 <= i < n)
                call = lambda: getattr(o, f"without_{sing}")(i, **kw)
                del m[i]
            else:
                call = lambda: getattr(o, f"without_{sing}")(key, **kw)
                if idx is None:
                    miss = True
                else:
                    del m[idx]
        try:
            r = call()
            exc = None
        except Violation:
            raise
        except Exception as ex:
            r, exc = None, ex
        if miss:
            check(exc is not None and isinstance(exc, MISS), "a missing target / duplicate key raises IndexError, KeyError or ValueError", f"{tag}/missing-target", lambda: repr(exc))
            return "missing-target"
        check(exc is None, "must not raise", f"{tag}/unexpected-{type(exc).__name__}", lambda: repr(exc))
        got = [(x.k, x.v) for x in getattr(r, attr)]
        if attr == "bag":
            ok = len(got) == len(m) and all(any(g[0] == w[0] and (g[1] is w[1] or g[1] == w[1]) for g in got) for w in m)
        else:
            ok = len(got) == len(m) and all(g[0] == w[0] and (g[1] is w[1] or g[1] == w[1]) for g, w in zip(got, m))
        check(ok, "keywords build or update the element; a bare key is promoted to a keyed element", f"{tag}/content", lambda: f"{got!r} vs {m!r}")
        if attr in ("items", "bag"):
            cont = getattr(r, attr)
            for kk, vv in m:  # the element is also what a lookup BY KEY returns (a later edit by key starts from it)
                e_ = cont[kk]
                check(e_.k == kk and (e_.v is vv or e_.v == vv), "the edited element is the one reachable under its key", f"{tag}/key-lookup-stale", lambda: f"[{kk!r}] -> ({e_.k!r}, {e_.v!r}) want v={vv!r}")
            # and a second edit by key builds on the first
            if op == "update_key_kw" and idx is not None:
                r2 = getattr(r, f"update_{sing}")(key, **kw) if False else getattr(r, f"transform_{sing}")(key, v=lambda t: t + 1, **kw)
                got2 = [x.v for x in getattr(r2, attr) if x.k == key]
                check(len(got2) == 1 and got2[0] == v + 1, "a second edit by key builds on the first", f"{tag}/second-edit-lost-first", lambda: f"{got2!r} vs {v + 1!r}")
        return "ok"

    step.__name__ = f"spec_{attr}_{op}"
    return step


def _warm_list(nmax):
    out = []
    for n in range(nmax + 1):
        for i in (-n - 1, -1, 0, n):
            for byv in (0, 1, 2):
                for inplace in (False, True):
                    out.append((n, [0, 1, 2][:nmax] + [0] * max(0, nmax - 3), False, i, 1, i if byv == 1 else 0, byv, inplace, 2))
    out.append((0, [0] * nmax, True, 0, 1, 0, 0, False, 1))
    return out


# ---------------------------------------------------------------------------------------------------------------------
# dict / list attributes whose VALUES may be None (Dict[str, Optional[int]], List[Optional[int]]): a stored None is an
# ordinary element - "value is None" must never be read as "key / index absent" (seeded change C06-E)


def _make_opt_classes(bootstrap):
    from typing import Dict as _Dict, Optional as _Optional

    from spec_classes import spec_class

    @spec_class(bootstrap=bootstrap)
    class KO:
        omap: _Dict[str, _Optional[int]] = {}
        olist: List[_Optional[int]] = []
        y: int = 0

    return KO


OPT_FAM = {"eager": _make_opt_classes(True), "lazy": _make_opt_classes(False)}


def make_optdict_step(fam, op, nmax):
    KO = OPT_FAM[fam]

    def step(n: int, e: List[int], nn: List[bool], k: int, v: int, vnone: bool, inplace: bool, c: int) -> str:
        assume(0 <= n <= nmax)
        assume(len(e) == nmax and len(nn) == nmax)
        pre = {DKEYS[t]: (None if nn[t] else e[t]) for t in range(n)}
        o = KO(omap={kk: vv for kk, vv in pre.items()})
        assume(0 <= k <= n)
        key = pick(DKEYS, k) if n + 1 >= len(DKEYS) else pick(DKEYS[: n + 1], k)
        kw = {"_inplace": True} if inplace else {}
        m = {kk: vv for kk, vv in pre.items()}
        nv = None if vnone else v
        fn = lambda x: c if x is None else None if x == c else x + 1
        miss = False
        if op == "with":
            m[key] = nv
            call = lambda: o.with_omap_item(key, nv, **kw)
        elif op == "update":
            if key in m:
                m[key] = nv
            else:
                miss = True
            call = lambda: o.update_omap_item(key, nv, **kw)
        elif op == "transform":
            if key in m:
                m[key] = fn(m[key])
            else:
                miss = True
            call = lambda: o.transform_omap_item(key, fn, **kw)
        else:
            if key in m:
                del m[key]
            else:
                miss = True
            call = lambda: o.without_omap_item(key, **kw)
        try:
            r = call()
            exc = None
        except Violation:
            raise
        except Exception as ex:
            r, exc = None, ex
        tag = f"C06/optdict/{op}"
        if miss:
            check(exc is not None, "a missing key raises", f"{tag}/missing-target-accepted", lambda: f"{getattr(r, 'omap', None)!r}")
            check(isinstance(exc, MISS), "a missing key raises IndexError, KeyError or ValueError", f"{tag}/wrong-exception-{type(exc).__name__}", lambda: repr(exc))
            return "missing-target"
        check(exc is None, "the helper must not raise for an existing target (a stored None is a value, not an absent key)", f"{tag}/unexpected-{type(exc).__name__}", lambda: repr(exc))
        if inplace:
            check(r is o, "_inplace returns the receiver", f"{tag}/inplace-identity")
        got = r.omap
        check(isinstance(got, dict) and list(got.keys()) == list(m.keys()) and all(got[x] is m[x] or (got[x] is not None and m[x] is not None and got[x] == m[x]) for x in m), "assign / transform / delete exactly the addressed key, order of the others untouched", f"{tag}/content", lambda: f"got {got!r} want {m!r}")
        check(r.y == 0 and r.olist == [], "other attributes untouched", f"{tag}/other-attr")
        return "ok"

    step.__name__ = f"optdict_{op}"
    return step


def make_optlist_step(fam, op, nmax):
    KO = OPT_FAM[fam]

    def step(n: int, e: List[int], nn: List[bool], i: int, v: int, vnone: bool, inplace: bool, c: int) -> str:
        assume(0 <= n <= nmax)
        assume(len(e) == nmax and len(nn) == nmax)
        pre = [(None if nn[t] else e[t]) for t in range(n)]
        o = KO(olist=[x for x in pre])
        assume(-n - 1 <= i <= n + 1)
        kw = {"_inplace": True} if inplace else {}
        m = [x for x in pre]
        nv = None if vnone else v
        fn = lambda x: c if x is None else None if x == c else x + 1
        miss = False
        try:
            j = norm_index(i, n)
        except ModelMiss:
            j, miss = None, True
        if op == "update":
            if not miss:
                m[j] = nv
            call = lambda: o.update_olist_item(i, nv, _by_index=True, **kw)
        elif op == "transform":
            if not miss:
                m[j] = fn(m[j])
            call = lambda: o.transform_olist_item(i, fn, _by_index=True, **kw)
        else:
            if not miss:
                del m[j]
            call = lambda: o.without_olist_item(i, _by_index=True, **kw)
        try:
            r = call()
            exc = None
        except Violation:
            raise
        except Exception as ex:
            r, exc = None, ex
        tag = f"C06/optlist/{op}"
        if miss:
            check(exc is not None, "a missing index raises", f"{tag}/missing-target-accepted", lambda: f"{getattr(r, 'olist', None)!r}")
            check(isinstance(exc, MISS), "a missing index raises IndexError, KeyError or ValueError", f"{tag}/wrong-exception-{type(exc).__name__}", lambda: repr(exc))
            return "missing-target"
        check(exc is None, "the helper must not raise for an existing target (a stored None is a value, not an absent index)", f"{tag}/unexpected-{type(exc).__name__}", lambda: repr(exc))
        if inplace:
            check(r is o, "_inplace returns the receiver", f"{tag}/inplace-identity")
        got = r.olist
        check(isinstance(got, list) and len(got) == len(m) and all(got[t] is m[t] or (got[t] is not None and m[t] is not None and got[t] == m[t]) for t in range(len(m))), "replace / transform / delete exactly the addressed index, the others untouched", f"{tag}/content", lambda: f"got {got!r} want {m!r}")
        check(r.y == 0 and r.omap == {}, "other attributes untouched", f"{tag}/other-attr")
        return "ok"

    step.__name__ = f"optlist_{op}"
    return step


def _warm_opt(nmax):
    return [(n, [5] * nmax, [t % 2 == 0 for t in range(nmax)], k, 7, vn, ip, 1) for n in range(nmax + 1) for k in (0, n) for ip in (False, True) for vn in (False, True)]


def _warm_dict(nmax):
    return [(n, [5] * nmax, mi, k, 7, ip, 1) for n in range(nmax + 1) for k in (0, n) for ip in (False, True) for mi in (False, True)]


def _warm_set(nmax):
    return [(n, [0, 1, 2][:nmax] + [0] * max(0, nmax - 3), mi, x, 1, ip) for n in range(nmax + 1) for x in (0, 1, 3) for ip in (False, True) for mi in (False, True)]


def _warm_spec(nmax):
    return [(n, [4] * nmax, k, 9, 0, ip) for n in range(nmax + 1) for k in (0, n) for ip in (False, True)]


def obligations(tier):
    obs = []
    nmax = 2 if tier == "quick" else 3
    T = 200 if tier == "quick" else 900
    fams = ("eager",) if tier == "quick" else ("eager", "lazy")
    for fam in fams:
        for attr, sing, elem in (("nums", "num", "int"), ("extras", "extra", "int"), ("tags", "tag", "str")):
            for op in ("with", "with_index", "with_insert", "update", "transform", "without"):
                if fam == "lazy" and attr != "nums":
                    continue
                nm = 3 if (attr == "nums" and op in ("without", "update", "transform", "with_index")) else nmax  # >= 3 elements: equal elements around the addressed one
                obs.append(Ob(f"C06.{fam}.list.{attr}.{op}", make_list_step(fam, attr, sing, op, nm, elem), _warm_list(nm), f"K2.{attr} (List[{elem}]); helper family {op}; content length <= {nm} with symbolic {'ints (equal elements and 0 included)' if elem == 'int' else 'strings from {\"\",a,b}'}; index/address in [-n-1,n+1] or a value; _by_index in {{default,True,False}}; _inplace symbolic; container missing symbolic (no-default attrs)", expect={"ok"}, timeout=T))
        for attr, sing in (("opts", "opt"), ("flags", "flag")):
            for op in ("with", "update", "transform", "without"):
                obs.append(Ob(f"C06.{fam}.dict.{attr}.{op}", make_dict_step(fam, attr, sing, op, nmax), _warm_dict(nmax), f"K2.{attr} (Dict[str,int]); {op}; <= {nmax} entries, keys from {DKEYS}; addressed key existing or fresh; values symbolic ints; _inplace symbolic; container missing symbolic", expect={"ok"}, timeout=T))
        for op in ("with", "update", "transform", "without"):
            obs.append(Ob(f"C06.{fam}.optdict.omap.{op}", make_optdict_step(fam, op, nmax), _warm_opt(nmax), f"KO.omap (Dict[str,Optional[int]]); {op}; <= {nmax} entries, keys from {DKEYS}; each stored value a symbolic int or None; new value symbolic int or None; callback maps None->int and one int->None; _inplace symbolic", expect={"ok"}, timeout=T))
        for op in ("update", "transform", "without"):
            obs.append(Ob(f"C06.{fam}.optlist.olist.{op}", make_optlist_step(fam, op, nmax), _warm_opt(nmax), f"KO.olist (List[Optional[int]]); {op} by index in [-n-1,n+1]; <= {nmax} elements each a symbolic int or None; new value symbolic int or None; _inplace symbolic", expect={"ok"}, timeout=T))
        for attr, sing in (("vals", "val"), ("marks", "mark")):
            for op in ("with", "update", "transform", "without"):
                obs.append(Ob(f"C06.{fam}.set.{attr}.{op}", make_set_step(fam, attr, sing, op, nmax), _warm_set(nmax), f"K2.{attr} (Set[int]); {op}; <= {nmax} elements in [0,3] (hashed: enumerated by the solver; 0 is falsy); _inplace symbolic", expect={"ok"}, timeout=T))
        for attr, ops in (("kids", ("with_kw", "update_kw", "transform_kw", "without")), ("by_name", ("with_kw", "update_kw", "without")), ("items", ("with_key", "with_key_kw", "update_key_kw", "without")), ("bag", ("with_key", "with_key_kw", "update_key_kw", "without")), ("lst", ("with_key", "with_key_kw", "update_key_kw", "without"))):
            for op in ops:
                obs.append(Ob(f"C06.{fam}.spec.{attr}.{op}", make_spec_step(fam, attr, op, min(nmax, 2)), _warm_spec(min(nmax, 2)), f"{attr}: container of (keyed) spec elements; {op}; <= 2 elements; keyword value symbolic", expect={"ok"}, timeout=T))
    return obs
