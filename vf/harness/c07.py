"""C07 — frozen instances are immutable yet still evolvable by copy (twin differential).

The same symbolic leaves build a frozen instance f and its non-frozen twin t (same template, other family); the same
operation runs on both. In-place operations (assignment, deletion, _inplace=True) must raise FrozenInstanceError and
leave f unchanged; copy-on-write operations leave f unchanged, return a distinct instance when the twin does, and give
the same abstract result / exception class as on the twin."""
from typing import List

from spec_classes import FrozenInstanceError

from vf.grammar import FAMILIES
from vf.snapshot import describe, same, snap
from vf.specops import K2_OPS, K2_SET_OPS, K3_OPS, abs_same, build_k1, build_k2, build_k2_sets, build_k3, k1_ops, k2_ops, k2_set_ops, k3_ops, state_of
from vf.stepcheck import K1_MATRIX
from vf.sym import Ob, Violation, assume, check, pick


def make(tmpl, opname, attr, conform, inplace):
    def h(n: int, e: List[int], x0: int, n0: int, s0: str, i0: int, xset: bool, i: int, i1: int, i2: int, s1: str, b1: bool, sel3: int, fk: int, bad: int, k: int) -> str:
        P = dict(n=n, e=e, x0=x0, n0=n0, s0=s0, i0=i0, i=i, i1=i1, i2=i2, s1=s1, b1=b1, sel3=sel3, fk=fk, bad=bad, k=k, keyok=True, inner_set=bool(xset))
        res = []
        for fam in ("frozen", "eager"):
            NS = FAMILIES[fam]
            if tmpl == "K1":
                o = build_k1(NS, P, bool(xset))
                if opname in ("delattr", "reset") and attr == "x":
                    assume(bool(xset))
                if opname in ("transform", "transform2"):
                    assume(bool(xset))
                if opname in ("transform_identity_kw", "transform_other_kw"):
                    assume(bool(xset))
                P["other"] = build_k1(NS, P, True)
                s_other = snap(P["other"])
                op = k1_ops(opname, attr, P, inplace, conform)
            elif tmpl == "K2":
                assume(len(e) == 2)
                if opname == "with_tags" and not inplace:
                    # comparing two copies of a list holding an unbounded symbolic string costs ~0.6 s per path (the
                    # twin comparison meets two distinct symbolic copies); the element comes from a pool here
                    P["s1"] = pick(["", "a", "bb"], sel3)
                o = build_k2(NS, P)
                op = k2_ops(opname, P, inplace, conform)
            elif tmpl == "K2S":
                assume(len(e) == 2)
                o = build_k2_sets(NS, P)
                op = k2_set_ops(opname, P, inplace, conform)
            elif tmpl == "K5":
                from vf.specops import build_k5, k5_ops

                assume(bool(b1))  # cache filled / dependants assigned, so that invalidation has something to discard
                o = build_k5(NS, P)
                op = k5_ops(NS, opname, P, inplace)
            else:
                o = build_k3(NS, P, bool(xset))
                op = k3_ops(NS, opname, attr, P, inplace)
            s0_ = snap(o)
            if tmpl != "K1":
                s_other = None
            try:
                r, exc = op.call(o), None
            except Violation:
                raise
            except Exception as ex:
                r, exc = None, ex
            if s_other is not None and fam == "frozen":
                check(same(snap(P["other"]), s_other), "an instance of a frozen spec class never changes observably (a pre-existing instance returned by a transform)", f"C07/{tmpl}/{opname}/other-frozen-instance-changed", lambda: f"{describe(s_other)} -> {describe(snap(P['other']))}")
            res.append((o, s0_, r, exc, op))
        (f, sf, rf, ef, opf), (t, st, rt, et, opt_) = res
        tag = f"C07/{tmpl}/{opname}" + (f".{attr}" if attr else "") + (f"/{opf.note}" if opf.note else "")
        check(same(snap(f), sf), "an instance of a frozen spec class never changes observably after construction", f"{tag}/frozen-changed-{'inplace' if inplace else 'copy'}", lambda: f"{opf.name}: {describe(sf)} -> {describe(snap(f))} (exc {ef!r})")
        if inplace and not opf.noop:
            check(isinstance(ef, FrozenInstanceError) or (et is not None and type(ef) is type(et)), "assignment, deletion and _inplace=True helper calls raise FrozenInstanceError", f"{tag}/inplace-not-refused", lambda: f"{opf.name}: frozen -> {ef!r} / returned {rf!r}; twin -> {et!r}")
            return "refused"
        # copy-on-write: behave exactly as on the same class declared without frozen=True
        if et is not None:
            check(ef is not None and type(ef) is type(et), "same exception class as on the non-frozen twin", f"{tag}/twin-differs/exception", lambda: f"{opf.name}: frozen {ef!r} twin {et!r}")
            return "raised"
        check(ef is None, "copy-on-write helpers work on frozen instances as on the twin", f"{tag}/twin-differs/frozen-raised-{type(ef).__name__}", lambda: f"{opf.name}: {ef!r}")
        if rt is not t:
            check(rf is not f, "copy-on-write helpers return a distinct instance carrying the change", f"{tag}/returned-self")
        check(abs_same(state_of(rf), state_of(rt)), "the result carries the same state as on the twin", f"{tag}/twin-differs/state", lambda: f"{opf.name}: frozen {state_of(rf)!r} twin {state_of(rt)!r}")
        return "ok"

    h.__name__ = f"C07_{tmpl}_{opname}_{attr}_{inplace}"
    return h


def make_special(kind):
    """frozen status reached through inheritance / copies made during construction"""
    from spec_classes import spec_class

    from vf.sym import pick

    reg = []

    def classes(frozen):
        @spec_class(frozen=frozen, bootstrap=True, do_not_copy=(kind == "frozen-do-not-copy"))
        class A:
            x: int = 1
            ys: List[int] = []

            def __post_init__(self):
                if kind == "post-init-copy":
                    reg.append(self.with_x(self.x + 1))
                    reg.append(self.with_y(5))

        @spec_class(bootstrap=True)
        class B(A):  # re-decorated without a frozen argument: inherited
            z: int = 2

        class C(A):  # plain subclass
            pass

        @spec_class
        class L(A):  # lazily bootstrapped re-decorated subclass
            z: int = 2

        return {"redecorated": B, "plain-subclass": C, "lazy-redecorated": L, "post-init-copy": A, "frozen-do-not-copy": A}[kind]

    FZ, TW = classes(True), classes(False)

    def h(v: int, w: int, op: int) -> str:
        res = []
        opname = pick(["setattr_x", "del_x", "with_x_inplace", "with_y_inplace", "ys_setattr", "with_x", "with_y", "reset_x", "update_x", "transform_x"], op)
        for cls in (FZ, TW):
            del reg[:]
            o = cls(x=v, ys=[w])
            if kind == "post-init-copy":
                o = reg[0]  # the copy made while the original was still being initialised
            s0 = snap(o)
            try:
                if opname == "setattr_x":
                    o.x = w
                    r = o
                elif opname == "del_x":
                    del o.x
                    r = o
                elif opname == "with_x_inplace":
                    r = o.with_x(w, _inplace=True)
                elif opname == "with_y_inplace":
                    r = o.with_y(w, _inplace=True)
                elif opname == "ys_setattr":
                    o.ys = [w, w]
                    r = o
                elif opname == "with_x":
                    r = o.with_x(w)
                elif opname == "with_y":
                    r = o.with_y(w)
                elif opname == "reset_x":
                    r = o.reset_x()
                elif opname == "update_x":
                    r = o.update(x=w)
                else:
                    r = o.transform_x(lambda t: t + 1)
                exc = None
            except Violation:
                raise
            except Exception as ex:
                r, exc = None, ex
            res.append((o, s0, r, exc))
        (f, sf, rf, ef), (t, st, rt, et) = res
        tag = f"C07/{kind}/{opname}"
        check(same(snap(f), sf), "an instance of a frozen spec class never changes observably after construction", f"{tag}/frozen-changed", lambda: f"{describe(sf)} -> {describe(snap(f))} (exc {ef!r})")
        if opname in ("setattr_x", "del_x", "with_x_inplace", "with_y_inplace", "ys_setattr"):
            check(isinstance(ef, FrozenInstanceError), "assignment, deletion and _inplace=True helper calls raise FrozenInstanceError", f"{tag}/inplace-not-refused", lambda: f"frozen -> {ef!r}; twin -> {et!r}")
            return "refused"
        if kind == "frozen-do-not-copy":
            # instances of a do_not_copy class are never copied (helpers work in place): on a frozen one a helper can only
            # refuse, or hand out a distinct instance; the twin (which mutates itself) is no reference here
            check(isinstance(ef, FrozenInstanceError) or (ef is None and rf is not f), "an instance of a frozen spec class never changes: a helper that cannot copy it refuses", f"{tag}/neither-refused-nor-copied", lambda: f"{ef!r} {rf!r}")
            return "refused" if ef is not None else "ok"
        check(ef is None and et is None, "copy-on-write helpers work on frozen instances as on the twin", f"{tag}/twin-differs/raised", lambda: f"frozen {ef!r} twin {et!r}")
        check(rf is not f, "copy-on-write helpers return a distinct instance carrying the change", f"{tag}/returned-self")
        check(same(snap(rf), snap(rt), ids=False), "the result carries the same state as on the twin", f"{tag}/twin-differs/state", lambda: f"frozen {describe(snap(rf))} twin {describe(snap(rt))}")
        return "ok"

    from vf.snapshot import register

    for c in (FZ, TW):
        register(c, ["x", "ys"] + (["z"] if kind in ("redecorated", "lazy-redecorated") else []))
    h.__name__ = f"C07_special_{kind.replace('-', '_')}"
    return h


def _warm():
    out = []
    for n in (0, 1, 2):
        for fk in (0, 1, 2, 3):
            for i in (-1, 0, 2):
                out.append((n, [1, 2], 3, 4, "s", 5, n != 0, i, 6, 7, "t", fk % 2 == 0, fk % 3, fk, fk, n))
    return out


def obligations(tier):
    obs = []
    T = 240 if tier == "quick" else 900
    mat = []
    for opname, attr in K1_MATRIX:
        for ip in (False, True):
            if opname in ("setattr", "delattr") and not ip:
                continue
            mat.append(("K1", opname, attr, True, ip))
        if opname in ("with", "update2"):
            mat.append(("K1", opname, attr, False, False))
    for opname in K2_OPS:
        for ip in (False, True):
            if opname.startswith("setattr") and not ip:
                continue
            mat.append(("K2", opname, None, True, ip))
    for opname in K2_SET_OPS:
        for ip in (False, True):
            mat.append(("K2S", opname, None, True, ip))
    for opname in K3_OPS:
        for attr in ("inner", "inner2"):
            for ip in (False, True):
                if opname.startswith("setattr") and not ip:
                    continue
                mat.append(("K3", opname, attr, True, ip))
    from vf.specops import K5_OPS

    for opname in K5_OPS:
        for ip in (False, True):
            if opname.startswith("setattr") and not ip:
                continue
            mat.append(("K5", opname, None, True, ip))
    if tier == "quick":
        mat = [m for m in mat if not (m[0] == "K1" and m[2] in ("o", "u", "lit", "f"))]
    for kind in ("redecorated", "plain-subclass", "lazy-redecorated", "post-init-copy", "frozen-do-not-copy"):
        obs.append(Ob(f"C07.special.{kind}", make_special(kind), [(3, 4, op) for op in range(10)], f"frozen status through {kind}: frozen class A(x, ys) and its non-frozen twin; instance of a re-decorated / plain / lazily bootstrapped subclass, or a copy made in __post_init__; assignment, deletion, _inplace helpers must be refused, copy-on-write helpers equal the twin; symbolic values", expect={"refused"} if kind == "frozen-do-not-copy" else {"ok", "refused"}, timeout=T))
    for tmpl, opname, attr, conform, ip in mat:
        obs.append(Ob(f"C07.{tmpl}.{opname}{'.' + attr if attr else ''}.{'conf' if conform else 'illtyped'}.{'inplace' if ip else 'copy'}", make(tmpl, opname, attr, conform, ip), _warm(), f"frozen {tmpl} vs non-frozen twin built from the same symbolic leaves; operation {opname}{' on ' + attr if attr else ''}; {'_inplace=True / assignment / deletion' if ip else 'copy-on-write'}", expect=set(), timeout=T))
    return obs
