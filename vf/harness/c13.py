"""C13 — KeyedList is a list with unique keys and a coherent key index.

Inductive step: arbitrary valid pre-state (built through the public constructor), ONE operation with symbolic
arguments, oracle = the same operation on a plain list + the unique-key rule; afterwards every public read agrees
with a linear scan. One step from an arbitrary valid state covers histories of any length.
"""
from typing import List

from spec_classes import spec_class
from spec_classes.types import KeyedList

from vf.sym import Ob, Violation, assume, check

KEYS = ["a", "b", "c", "d", "e", "f"]


@spec_class(key="k", bootstrap=True)
class Item:
    k: str
    v: int = 0


# ---------------------------------------------------------------------------------------------------------
# item universes


class UTuple:
    """(key, payload) tuples with an explicit key function."""

    name = "tuple"
    typed = None

    @staticmethod
    def mk(ki, p):
        return (KEYS[ki], p)

    @staticmethod
    def keyf(it):
        return it[0]

    @staticmethod
    def new(items):
        return KeyedList(items, key=UTuple.keyf)

    universe = KEYS


class USpec:
    """keyed spec-class instances, default key extraction."""

    name = "spec"

    @staticmethod
    def mk(ki, p):
        return Item(KEYS[ki], v=p)

    @staticmethod
    def keyf(it):
        return it.k

    @staticmethod
    def new(items):
        return KeyedList(items)

    universe = KEYS


class USpecTyped(USpec):
    """KeyedList[Item, str]: wrong item / key types must be refused without changing the container."""

    name = "spec-typed"

    @staticmethod
    def new(items):
        return KeyedList[Item, str](items)


class UInt:
    """hashable items that are their own key (ints): l[i] is index access, key access through get/index_for_key."""

    name = "int"

    @staticmethod
    def mk(ki, p):
        return UInt.universe[ki]  # payload plays no role: the item is its own key

    @staticmethod
    def keyf(it):
        return it

    @staticmethod
    def new(items):
        return KeyedList(items)

    universe = [i * 10 for i in range(len(KEYS))]


class UIntTyped(UInt):
    name = "int-typed"

    @staticmethod
    def new(items):
        return KeyedList[int, int](items)


UNIVERSES = {u.name: u for u in (UTuple, USpec, USpecTyped, UInt, UIntTyped)}

# ---------------------------------------------------------------------------------------------------------
# observation + model


def scan(lst, keyf, key):
    for i, it in enumerate(lst):
        if keyf(it) == key:
            return i, it
    return None, None


def observe_agrees(l, model, U, where, univ=None):
    """Every public read agrees with the plain-list model / a linear scan."""
    got = list(l)
    check(len(got) == len(model) and all(a is b or a == b for a, b in zip(got, model)), "list(l) equals the plain-list model", f"C13/{where}/content", lambda: f"got {got!r} want {model!r}")
    check(len(l) == len(model), "len", f"C13/{where}/len")
    want_keys = [U.keyf(it) for it in model]
    got_keys = list(l.keys())
    check(len(got_keys) == len(want_keys) and all(k in want_keys for k in got_keys) and all(k in got_keys for k in want_keys), "keys() agrees with a linear scan", f"C13/{where}/keys", lambda: f"{list(l.keys())!r} vs {want_keys!r}")
    check(dict(l.items()) == {U.keyf(it): it for it in model}, "items() agrees with a linear scan", f"C13/{where}/items")
    for k in univ if univ is not None else U.universe:
        i, it = scan(model, U.keyf, k)
        g = l.get(k, "<none>")
        if i is None:
            check(g == "<none>", "get(k) for an absent key", f"C13/{where}/get-absent", lambda: f"key {k!r} -> {g!r}")
            try:
                l.index_for_key(k)
                ok = False
            except KeyError:
                ok = True
            check(ok, "index_for_key raises KeyError for an absent key", f"C13/{where}/index_for_key-absent")
            if not isinstance(k, int):
                try:
                    l[k]
                    ok = False
                except KeyError:
                    ok = True
                check(ok, "l[key] raises KeyError for an absent key", f"C13/{where}/getitem-key-absent")
        else:
            check(g is it or g == it, "get(k) agrees with a linear scan", f"C13/{where}/get", lambda: f"key {k!r}: {g!r} vs {it!r}")
            check(l.index_for_key(k) == i, "index_for_key agrees with a linear scan", f"C13/{where}/index_for_key")
            if not isinstance(k, int):
                check(l[k] is it or l[k] == it, "l[key] agrees with a linear scan", f"C13/{where}/getitem-key")


def dup(model, keyf):
    ks = [keyf(it) for it in model]
    return len(set(ks)) != len(ks)


class ModelRaise(Exception):
    def __init__(self, kind):
        self.kind = kind


def model_step(op, model, U, a):
    """Return (result, new_model) or raise ModelRaise(exception class). `model` is not modified."""
    m = list(model)
    n = len(m)
    r = None
    if op == "getitem":
        try:
            r = m[a["i"]]
        except IndexError:
            raise ModelRaise(IndexError)
    elif op == "getslice":
        r = m[a["i"] : a["j"]]
    elif op == "setitem":
        try:
            m[a["i"]] = a["item"]
        except IndexError:
            raise ModelRaise(IndexError)
    elif op == "setitem_key":
        i, _ = scan(m, U.keyf, a["key"])
        if i is None:
            raise ModelRaise(KeyError)
        m[i] = a["item"]
    elif op == "delitem":
        try:
            del m[a["i"]]
        except IndexError:
            raise ModelRaise(IndexError)
    elif op == "delitem_key":
        i, _ = scan(m, U.keyf, a["key"])
        if i is None:
            raise ModelRaise(KeyError)
        del m[i]
    elif op == "insert":
        m.insert(a["i"], a["item"])
    elif op == "append":
        m.append(a["item"])
    elif op in ("extend", "iadd"):
        m.extend(a["items"])
    elif op == "add":
        r = m + a["items"]
        if dup(r, U.keyf):
            raise ModelRaise(ValueError)
        return r, m
    elif op == "pop":
        try:
            r = m.pop(a["i"])
        except IndexError:
            raise ModelRaise(IndexError)
    elif op == "pop_last":
        try:
            r = m.pop()
        except IndexError:
            raise ModelRaise(IndexError)
    elif op == "remove":
        try:
            m.remove(a["item"])
        except ValueError:
            raise ModelRaise(ValueError)
    elif op == "reverse":
        m.reverse()
    elif op == "clear":
        m.clear()
    elif op == "contains":
        r = a["item"] in m
    elif op == "iter":
        r = list(iter(m))
    elif op == "index":
        try:
            r = m.index(a["item"])
        except ValueError:
            raise ModelRaise(ValueError)
    elif op == "count":
        r = m.count(a["item"])
    else:
        raise AssertionError(op)
    if dup(m, U.keyf):
        raise ModelRaise(ValueError)
    return r, m


def real_step(op, l, a):
    if op == "getitem":
        return l[a["i"]]
    if op == "getslice":
        return list(l[a["i"] : a["j"]])
    if op == "setitem":
        l[a["i"]] = a["item"]
    elif op == "setitem_key":
        l[a["key"]] = a["item"]
    elif op == "delitem":
        del l[a["i"]]
    elif op == "delitem_key":
        del l[a["key"]]
    elif op == "insert":
        l.insert(a["i"], a["item"])
    elif op == "append":
        l.append(a["item"])
    elif op == "extend":
        l.extend(a["items"])
    elif op == "iadd":
        l2 = l
        l2 += a["items"]
        check(l2 is l, "+= is in place", "C13/iadd/identity")
    elif op == "add":
        return l + a["items"]
    elif op == "pop":
        return l.pop(a["i"])
    elif op == "pop_last":
        return l.pop()
    elif op == "remove":
        l.remove(a["item"])
    elif op == "reverse":
        l.reverse()
    elif op == "clear":
        l.clear()
    elif op == "contains":
        return a["item"] in l
    elif op == "iter":
        return list(iter(l))
    elif op == "index":
        return l.index(a["item"])
    elif op == "count":
        return l.count(a["item"])
    return None


OPS_IDX = ("getitem", "delitem", "pop")
OPS_IDX_ITEM = ("setitem", "insert")
OPS_ITEM = ("append", "remove", "contains", "index", "count")
OPS_KEY = ("delitem_key",)
OPS_KEY_ITEM = ("setitem_key",)
OPS_ITEMS = ("extend", "iadd", "add")
OPS_NONE = ("pop_last", "reverse", "clear", "iter")
ALL_OPS = OPS_IDX + OPS_IDX_ITEM + OPS_ITEM + OPS_KEY + OPS_KEY_ITEM + OPS_ITEMS + OPS_NONE + ("getslice",)


def make_step(uname, op, nmax, bad=False, free_keys=False):
    """Build the harness for one (universe, operation) shard.

    Parameters of the harness (all symbolic): n = container length; p0..p3 payloads of the existing items;
    i, j = indices in [-n-1, n+1]; k1, k2 = key indices of the new item(s) in [0, n] (n = a fresh key);
    q1, q2 = payloads of the new items; kk = key index for by-key addressing; for free_keys the existing keys are
    ks[0..n) symbolic pairwise distinct in [0, 5] (checks the WLOG 'keys are 0..n-1 in list order').
    """
    U = UNIVERSES[uname]
    NK = 4 if free_keys else len(KEYS)

    need_i = op in OPS_IDX + OPS_IDX_ITEM + ("getslice",)
    need_j = op == "getslice"
    need_item = op in OPS_ITEM + OPS_IDX_ITEM + OPS_KEY_ITEM + OPS_ITEMS
    need_items = op in OPS_ITEMS
    need_key = op in OPS_KEY + OPS_KEY_ITEM
    hashed_payload = uname == "tuple" and op in ("contains", "remove", "index", "count")

    def step(n: int, p: List[int], i: int, j: int, k1: int, k2: int, q1: int, q2: int, kk: int, ks: List[int]) -> str:
        assume(0 <= n <= nmax)
        assume(len(p) == nmax)
        if need_i:
            assume(-n - 1 <= i <= n + 1)
        if need_j:
            assume(-n - 1 <= j <= n + 1)
        if free_keys:
            assume(len(ks) == nmax)
            for x in range(nmax):
                assume(0 <= ks[x] < NK)
                for y in range(x):
                    assume(ks[x] != ks[y])
            kidx = [ks[x] for x in range(n)]
            hi = NK - 1
            univ = U.universe[:NK]
        else:
            kidx = list(range(n))
            hi = n + 1 if need_items else n  # one (two for item pairs) fresh keys beyond the existing ones
            univ = U.universe[: hi + 1]
        if hashed_payload:
            assume(0 <= q1 <= 1)
            for x in range(nmax):
                assume(0 <= p[x] <= 1)
        items = [U.mk(kidx[x], p[x]) for x in range(n)]
        l = U.new(items)
        model = list(items)
        a = {}
        if need_i:
            a["i"] = i
        if need_j:
            a["j"] = j
        if need_key:
            assume(0 <= kk <= hi)
            a["key"] = U.universe[kk]
        if need_item:
            assume(0 <= k1 <= hi)
            a["item"] = U.mk(k1, q1)
        if need_items:
            assume(0 <= k2 <= hi)
            a["items"] = [a["item"], U.mk(k2, q2)]
        if bad:
            # wrong item type for a parameterised container
            a["item"] = "zz" if uname == "int-typed" else ("zz", 1)
            if need_items:
                a["items"] = [U.mk(k1, q1), a["item"]]
        allowed = None
        if bad:
            # wrong item type: the model does not interpret the ill-typed item; TypeError is required unless the call is
            # also faulty in another way (bad index / absent key / duplicate among the well-typed items), then either.
            allowed = [TypeError]
            if op in ("setitem",) and not (-n <= i < n):
                allowed.append(IndexError)
            if op in ("setitem_key",) and scan(model, U.keyf, a["key"])[0] is None:
                allowed.append(KeyError)
            if op in ("extend", "iadd") and dup(model + a["items"][:1], U.keyf):
                allowed.append(ValueError)
            want, m2, want_exc = None, model, TypeError
        else:
            try:
                want, m2 = model_step(op, model, U, a)
                want_exc = None
            except ModelRaise as e:
                want, m2, want_exc = None, model, e.kind
        try:
            got = real_step(op, l, a)
            got_exc = None
        except Violation:
            raise
        except Exception as e:
            got, got_exc = None, e
        if want_exc is not None:
            check(got_exc is not None, f"{op} must raise {want_exc.__name__}", f"C13/{op}/should-raise-{want_exc.__name__}", lambda: f"returned {got!r}")
            check(isinstance(got_exc, tuple(allowed) if allowed else want_exc), f"{op} raises {want_exc.__name__}", f"C13/{op}/wrong-exception-{type(got_exc).__name__}-for-{want_exc.__name__}", lambda: repr(got_exc)[:200])
            # an operation that raises leaves the container exactly as it was
            observe_agrees(l, model, U, f"{op}-after-{want_exc.__name__}", univ)
            return type(got_exc).__name__ if allowed else want_exc.__name__
        check(got_exc is None, f"{op} must not raise", f"C13/{op}/unexpected-{type(got_exc).__name__}", lambda: repr(got_exc)[:200])
        if op == "add":
            res = got
            check(isinstance(res, KeyedList), "+ returns a KeyedList", "C13/add/type")
            observe_agrees(res, want, U, "add-result", univ)
            observe_agrees(l, model, U, "add-receiver", univ)
            return "ok"
        if op in ("getitem", "pop", "pop_last"):
            check(got is want or got == want, f"{op} result", f"C13/{op}/result", lambda: f"{got!r} vs {want!r}")
        elif op in ("getslice", "iter", "contains", "index", "count"):
            check(got == want, f"{op} result", f"C13/{op}/result", lambda: f"{got!r} vs {want!r}")
        observe_agrees(l, m2, U, op, univ)
        return "ok"

    step.__name__ = f"step_{uname}_{op}"
    return step


def _warm(op, nmax, free_keys=False):
    out = []
    import itertools

    for n in range(0, nmax + 1):
        for i, k1 in itertools.product((-n - 1, -1, 0, n - 1, n + 1), (0, n)):
            ks = list(range(nmax)) if free_keys else []
            out.append((n, [7] * nmax if op not in ("contains", "remove", "index", "count") else [0] * nmax, i, 0, k1, min(1, n), 1, 0, 0, ks))
    return out


def obligations(tier):
    obs = []
    nmax = 2 if tier == "quick" else 3
    for uname in ("tuple", "spec", "int"):
        for op in ALL_OPS:
            if uname == "int" and op in ("setitem_key", "delitem_key"):
                continue  # l[int] is index access for int-keyed items
            nm = nmax
            if tier == "thorough" and uname == "tuple" and op in ("setitem", "insert", "delitem", "pop", "reverse", "append", "getitem"):
                nm = 4
            exp = {"ok"}
            obs.append(
                Ob(
                    f"C13.{uname}.{op}.n{nm}",
                    make_step(uname, op, nm),
                    _warm(op, nm),
                    f"universe={uname}; op={op}; len<= {nm}; keys WLOG the first n of {KEYS} in list order; indices in [-n-1,n+1]; new-item key in existing keys + one fresh; payloads unbounded symbolic ints (0..1 where the item itself is hashed)",
                    expect=exp,
                    timeout=150 if tier == "quick" else 900,
                )
            )
    # typed containers: wrong item type is refused and nothing changes
    for uname in ("spec-typed", "int-typed"):
        for op in ("setitem", "insert", "append", "extend", "iadd") + (("setitem_key",) if uname == "spec-typed" else ()):
            obs.append(
                Ob(
                    f"C13.{uname}.{op}.bad",
                    make_step(uname, op, nmax, bad=True),
                    _warm(op, nmax),
                    f"universe={uname}; op={op} with an item of the wrong type; len<= {nmax}",
                    expect=set(),
                    timeout=150 if tier == "quick" else 600,
                )
            )
        for op in ("setitem", "insert", "append", "extend"):
            obs.append(Ob(f"C13.{uname}.{op}.good", make_step(uname, op, nmax), _warm(op, nmax), f"universe={uname}; op={op}; conforming items; len<= {nmax}", expect={"ok"}, timeout=150 if tier == "quick" else 600))
    # symmetry check: arbitrary distinct keys instead of the WLOG ordering
    fk_ops = ("setitem", "delitem", "insert", "reverse", "setitem_key") if tier == "quick" else ALL_OPS
    for op in fk_ops:
        obs.append(
            Ob(
                f"C13.tuple.{op}.freekeys",
                make_step("tuple", op, 2 if tier == "quick" else 3, free_keys=True),
                _warm(op, 2 if tier == "quick" else 3, free_keys=True),
                f"universe=tuple; op={op}; existing keys symbolic pairwise distinct indices into {KEYS[:4]}; new key any of the universe; len<= {2 if tier == 'quick' else 3}",
                expect={"ok"},
                timeout=200 if tier == "quick" else 1200,
            )
        )
    return obs
