"""C05 — scalar and top-level helpers compute exactly the documented new state.

Pre-state: template instance (K1 scalars / K3 nested / K5 prepared) built through the constructor from symbolic leaves;
one helper call in a documented call form with symbolic flags (_inplace, _if) and conforming symbolic values; oracle =
the executable model of the documentation in vf.specops (effect on the abstract state).
"""
from vf.grammar import FAMILIES
from vf.specops import K1_OPS, K3_OPS, K5_OPS, abs_same, build_k1, build_k3, build_k5, k1_ops, k3_ops, k5_ops, state_of
from vf.sym import Ob, Violation, assume, check, pick


def run_op(o, op, tag):
    st0 = state_of(o)
    try:
        r = op.call(o)
    except Violation:
        raise
    except Exception as ex:
        check(False, "a documented call form with conforming values must not raise", f"{tag}/unexpected-{type(ex).__name__}", lambda: f"{op.name}: {ex!r}")
    if op.noop:
        check(r is o, "_if=False, MISSING or UNCHANGED make the call a no-op returning the receiver", f"{tag}/noop-returns-other", lambda: f"{op.name} {op.note}")
        check(abs_same(state_of(o), st0), "a no-op changes nothing", f"{tag}/noop-changed-state", lambda: f"{op.name} {op.note}: {state_of(o)!r} vs {st0!r}")
        return "noop"
    want = op.effect(st0)
    got = state_of(r)
    check(abs_same(got, want), "the resulting state is the documented one", f"{tag}/state", lambda: f"{op.name} {op.note}: got {got!r} want {want!r} (pre {st0!r})")
    if op.inplace:
        check(r is o, "with _inplace=True the receiver itself is returned", f"{tag}/inplace-identity", lambda: op.name)
    else:
        check(r is not o, "without _inplace a new instance is returned", f"{tag}/copy-identity", lambda: op.name)
    return "ok"


def make_k1(fam, opname, attr):
    NS = FAMILIES[fam]

    def h(x0: int, n0: int, s0: str, i1: int, s1: str, b1: bool, sel3: int, fk: int, i2: int, inplace: bool, if_: bool) -> str:
        P = dict(x0=x0, n0=n0, s0=s0, i1=i1, s1=s1, b1=b1, sel3=sel3, fk=fk, i2=i2, bad=0)
        # reset(): the no-default attribute x (declared FIRST) may be unset while later attributes hold non-defaults
        o = build_k1(NS, P, xset=not (opname == "reset_all" and b1))
        if opname in ("setattr", "delattr"):
            assume(inplace and if_)
        if opname == "transform":
            assume(0 <= fk <= 1)  # pure transforms only (add / const)
        if opname == "transform2":
            assume(fk == 0)
        if opname == "sentinel":
            assume(0 <= fk <= 3)
        if opname == "transform_identity_kw":
            P["other"] = None
        op = k1_ops(opname, attr, P, bool(inplace), True, bool(if_))
        return run_op(o, op, f"C05/K1/{opname}" + (f"/{op.note}" if opname == "sentinel" else ""))

    h.__name__ = f"k1_{opname}_{attr}"
    return h


def make_k3(fam, opname, attr):
    NS = FAMILIES[fam]

    def h(x0: int, n0: int, i0: int, inner_set: bool, i1: int, i2: int, inplace: bool, if_: bool) -> str:
        P = dict(x0=x0, n0=n0, i0=i0, i1=i1, i2=i2, inner_set=bool(inner_set))
        o = build_k3(NS, P, bool(inner_set))
        if opname == "setattr_obj":
            assume(inplace and if_)
        op = k3_ops(NS, opname, attr, P, bool(inplace), bool(if_))
        return run_op(o, op, f"C05/K3/{opname}")

    h.__name__ = f"k3_{opname}_{attr}"
    return h


def make_k5(fam, opname):
    NS = FAMILIES[fam]

    def h(x0: int, n0: int, i1: int, sel3: int, inplace: bool) -> str:
        P = dict(x0=x0, n0=n0, i1=i1, sel3=sel3, keyok=True, b1=True, i0=3)  # cache filled, z and dz assigned
        o = build_k5(NS, P)
        if opname.startswith("setattr"):
            assume(inplace)
        op = k5_ops(NS, opname, P, bool(inplace))
        return run_op(o, op, f"C05/K5/{opname}")

    h.__name__ = f"k5_{opname}"
    return h


def make_nested_kw(fam):
    """with_<a>(**kw) / update_<a>(**kw) on an unset nested attribute == <Nested>(**kw), whatever the keyword order
    (the nested class has an attribute invalidated_by another one, so re-assigning constructor keywords is visible)."""
    from spec_classes import Attr, spec_class

    bootstrap = fam == "eager"

    @spec_class(bootstrap=bootstrap)
    class Dep:
        base: int = 0
        derived: int = Attr(default=-1, invalidated_by=["base"])

    @spec_class(bootstrap=bootstrap)
    class Holder:
        dep: Dep
        y: int = 0

    def h(b: int, d: int, order: bool, form: int, inplace: bool) -> str:
        kw = {"derived": d, "base": b} if order else {"base": b, "derived": d}
        want = Dep(**kw)
        o = Holder()
        k2 = {"_inplace": True} if inplace else {}
        name = pick(["with_kw", "update_kw", "with_dict", "ctor_dict"], form)
        if name == "with_kw":
            r = o.with_dep(**kw, **k2)
        elif name == "update_kw":
            r = o.update_dep(**kw, **k2)
        elif name == "with_dict":
            r = o.with_dep(kw, **k2)
        else:
            r = Holder(dep=kw)
        got = r.dep
        check((got.base is want.base or got.base == want.base) and (got.derived is want.derived or got.derived == want.derived), "with_<a>(**kw) yields a freshly built nested spec from the keywords", f"C05/nested-kw/{name}/state", lambda: f"kw order {'derived,base' if order else 'base,derived'}: got base={got.base!r} derived={got.derived!r}; {Dep.__name__}(**kw) has base={want.base!r} derived={want.derived!r}")
        return "ok"

    h.__name__ = f"nested_kw_{fam}"
    return h


def make_sentinel_coll(fam):
    """UNCHANGED / _if=False on collection-typed attributes (list, dict, set; with a default, a default factory or no
    default and unset) must be no-ops returning the receiver (the scalar attributes of K1 have their own shard)."""
    from spec_classes.types.missing import UNCHANGED

    from vf.snapshot import describe, same, snap

    NS = FAMILIES[fam]
    ATTRS = ["nums", "opts", "vals", "tags", "extras", "flags", "marks"]

    def h(n: int, e0: int, e1: int, a: int, form: int, inplace: bool) -> str:
        assume(0 <= n <= 2)
        e = [e0, e1]
        o = NS.K2(nums=[e[t] for t in range(n)], opts={k: e[t] for t, k in enumerate(["a", "b"][:n])}, tags=[["a", "b"][t] for t in range(n)], vals={t for t in range(n)}, y=e0)
        attr = pick(ATTRS, a)
        which = pick(["with-UNCHANGED", "update-UNCHANGED", "with-if-false", "setattr-UNCHANGED"], form)
        kw = {"_inplace": True} if inplace else {}
        s0 = snap(o)
        if which == "with-UNCHANGED":
            r = getattr(o, f"with_{attr}")(UNCHANGED, **kw)
        elif which == "update-UNCHANGED":
            r = o.update(**{attr: UNCHANGED}, **kw)
        elif which == "with-if-false":
            r = getattr(o, f"with_{attr}")([] if attr in ("nums", "tags", "extras") else ({} if attr in ("opts", "flags") else set()), _if=False, **kw)
        else:
            assume(inplace)
            setattr(o, attr, UNCHANGED)
            r = o
        tag = f"C05/K2/sentinel/{which}"
        check(same(snap(o), s0), "a no-op changes nothing", f"{tag}/noop-changed-state", lambda: f"{attr}: {describe(s0)} -> {describe(snap(o))}")
        check(same(snap(r), s0, ids=False), "a no-op changes nothing (state of the returned instance)", f"{tag}/noop-result-state", lambda: f"{attr}: receiver {describe(s0)}; returned {describe(snap(r))}")
        check(r is o, "_if=False, MISSING or UNCHANGED make the call a no-op returning the receiver", f"{tag}/noop-returns-other", lambda: f"{attr}")
        return "noop"

    h.__name__ = f"sentinel_coll_{fam}"
    return h


def obligations(tier):
    obs = []
    T = 200 if tier == "quick" else 900
    fams = ("eager",) if tier == "quick" else ("eager", "lazy")
    w1 = [(1, 2, "s", 5, "t", b, sel, fk, 3, ip, if_) for b in (False, True) for sel in (0, 2) for fk in (0, 1, 2, 3) for ip in (False, True) for if_ in (True, False)]
    w3 = [(1, 2, 3, ins, 5, 7, ip, if_) for ins in (True, False) for ip in (False, True) for if_ in (True, False)]
    w5 = [(1, 2, 5, sel, ip) for sel in (0, 1, 2) for ip in (False, True)]
    for fam in fams:
        for opname in ("with", "setattr", "transform", "reset", "delattr"):
            for attr in ("x", "n", "s", "o", "u", "lit", "f") if opname in ("with", "setattr") else ("x", "n", "s"):
                if fam == "lazy" and attr not in ("x", "s"):
                    continue
                obs.append(Ob(f"C05.{fam}.K1.{opname}.{attr}", make_k1(fam, opname, attr), w1, f"K1.{attr}; helper form {opname}; conforming symbolic value; _inplace, _if symbolic; pre-state x,n,s symbolic", expect={"ok"}, timeout=T))
        for opname in ("reset_all", "update2", "transform2", "sentinel", "transform_identity_kw"):
            obs.append(Ob(f"C05.{fam}.K1.{opname}", make_k1(fam, opname, "n"), w1, f"K1 top-level / sentinel form {opname}; symbolic values and flags", expect={"ok"} if opname != "sentinel" else set(), timeout=T))
        for opname in K3_OPS:
            for attr in ("inner", "inner2"):
                obs.append(Ob(f"C05.{fam}.K3.{opname}.{attr}", make_k3(fam, opname, attr), w3, f"K3.{attr} (nested spec value; inner has no default and may be unset, inner2 has a default factory); call form {opname}; symbolic nested values and flags", expect={"ok"}, timeout=T))
        obs.append(Ob(f"C05.{fam}.nested-kw", make_nested_kw(fam), [(2, 5, o_, f, ip) for o_ in (False, True) for f in range(4) for ip in (False, True)], "nested class with an attribute invalidated_by another: with_dep(**kw) / update_dep(**kw) / with_dep(dict) / Holder(dep=dict) on an unset nested attribute equal Dep(**kw) for both keyword orders; symbolic values", expect={"ok"}, timeout=T))
        obs.append(Ob(f"C05.{fam}.K2.sentinel", make_sentinel_coll(fam), [(n, 1, 2, a, f, ip) for n in (0, 2) for a in range(7) for f in range(4) for ip in (False, True)], "K2 collection attributes (list/dict/set x default/factory/no default): with_<a>(UNCHANGED), update(<a>=UNCHANGED), with_<a>(v, _if=False), obj.<a> = UNCHANGED; content length <= 2 symbolic elements; _inplace symbolic", expect=set(), timeout=T))
        for opname in K5_OPS:
            obs.append(Ob(f"C05.{fam}.K5.{opname}", make_k5(fam, opname), w5, f"K5 prepared attribute; {opname}: the stored value is the PREPARED value", expect={"ok"}, timeout=T))
    return obs
