"""C11 — derived values are never stale after a dependency changes.

Inductive step: pre-state with symbolic attribute values and symbolic 'cache filled' / 'override set' bits (every cached
entry equals its getter on the current state by construction), ONE mutation through any entry point (assignment,
deletion, scalar helpers, top-level update, reset; in place or copy-on-write; well-typed or ill-typed), then: every
derived value read afterwards equals the getter on current state (transitively through the chain), invalidated
attributes are back at their default, and unrelated / failed mutations discard nothing (getter-call counters)."""
from typing import List

from spec_classes import Attr, spec_class, spec_property

from vf.sym import Ob, Skip, Violation, assume, check, pick

CALLS = {}


def bump(k):
    CALLS[k] = CALLS.get(k, 0) + 1


def make(bootstrap):
    @spec_class(bootstrap=bootstrap)
    class G:
        x: int = 0
        w: int = 0
        z: int = Attr(default=7, invalidated_by=["x"])
        xs: List[int] = []
        nd: int  # no default, nothing depends on it explicitly (only the '*' dependant)

        @spec_property(cache=True, invalidated_by=["x"])
        def p(self):  # cached, depends on x
            bump("p")
            return self.x * 2

        @spec_property(cache=True, invalidated_by=["p"])
        def q(self):  # chain q <- p <- x
            bump("q")
            return self.p + 1

        @spec_property(cache=True, invalidated_by="*")
        def star(self):  # wildcard: any attribute
            bump("star")
            return self.x + self.w + getattr(self, "nd", 0)

        @spec_property(cache=True, invalidated_by=["xs"])
        def sx(self):  # depends on a container attribute (element helpers)
            bump("sx")
            return len(self.xs)

        @spec_property(cache=False, invalidated_by=["x"])
        def mid(self):  # UNCACHED middle link
            return self.x + 100

        @spec_property(cache=True, invalidated_by=["mid"])
        def end(self):  # chain end <- mid <- x through an uncached link
            bump("end")
            return self.mid + 1

        @spec_property(cache=True, overridable=False, invalidated_by=["x"])
        def po(self):  # cached but NOT overridable
            bump("po")
            return self.x * 3

        bal: int  # managed attribute masked by a validating property: the raw write can fail AFTER the type check

        @property
        def bal(self):
            return self.__dict__.get("_bal", 0)

        @bal.setter
        def bal(self, v):
            if v < 0:
                raise ValueError("negative balance")
            self.__dict__["_bal"] = v

        audit: str = Attr(default="", invalidated_by=["bal"])

        @spec_property(cache=True, invalidated_by=["bal"])
        def digest(self):
            bump("digest")
            return self.bal + 1

        aw: int  # ANNOTATED (managed) derived attribute whose dependency is given as a bare string (seeded change C11-E)

        @spec_property(cache=True, invalidated_by="xs")
        def aw(self):
            bump("aw")
            return len(self.xs) * 7

        @spec_property(cache=True, invalidated_by=["um"])
        def pu(self):  # depends on an unmanaged attribute
            bump("pu")
            return getattr(self, "um", 0) * 3

    @spec_class(bootstrap=bootstrap)
    class GS(G):  # inheritance adding a dependant in a subclass
        @spec_property(cache=True, invalidated_by=["w"])
        def r(self):
            bump("r")
            return self.w * 5

    @spec_class(bootstrap=bootstrap)
    class GP(G):  # cache filled during __post_init__
        def __post_init__(self):
            self.p
            self.q

    return {"G": G, "GS": GS, "GP": GP}


FAM = {"eager": make(True), "lazy": make(False)}
DERIVED = ["p", "q", "star", "sx", "end", "pu", "po", "digest", "aw"]


def expected(m, cname):
    x, w, xs = m.x, m.w, m.xs
    um = m.__dict__.get("um", 0)
    nd = getattr(m, "nd", 0)
    d = {"p": x * 2, "q": x * 2 + 1, "star": x + w + nd, "sx": len(xs), "end": x + 101, "pu": um * 3, "po": x * 3, "digest": m.bal + 1, "aw": len(xs) * 7}
    if cname == "GS":
        d["r"] = w * 5
    return d


MUTS = ["del_nd", "reset_nd", "setattr_nd", "bad_bal", "setattr_bal", "setattr_x", "delattr_x", "with_x", "transform_x", "reset_x", "update_x", "setattr_w", "with_w", "update_xw", "with_x_item", "setattr_um", "setattr_z", "bad_x", "bad_w", "reset_all", "without_x_item_missing"]


def make_h(fam, cname, mut):
    cls = FAM[fam][cname]

    def h(x0: int, w0: int, rp: bool, rq: bool, rs: bool, rsx: bool, rend: bool, rpu: bool, oz: bool, z1: int, v: int, inplace: bool) -> str:
        o = cls(x=x0, w=w0, xs=[1])
        o.um = 2
        if oz:
            o.z = z1  # assigned after construction: must survive unrelated mutations
        derived = DERIVED + (["r"] if cname == "GS" else [])
        o.nd = 4
        o.audit = "checked"  # assigned value of an attribute invalidated_by bal
        for bit, name in ((rp, "p"), (rq, "q"), (rs, "star"), (rsx, "sx"), (rend, "end"), (rpu, "pu"), (rp, "po"), (rq, "digest"), (rsx, "aw")):
            if bit:
                getattr(o, name)  # fills the cache
        if cname == "GS" and rp:
            o.r
        cached_before = {n: n in o.__dict__ for n in derived}
        z_before = o.z
        CALLS.clear()
        kw = {"_inplace": True} if inplace else {}
        failed_expected = False
        changed = set()
        try:
            if mut == "setattr_x":
                assume(inplace)
                o.x = v
                m, changed = o, {"x"}
            elif mut == "delattr_x":
                assume(inplace)
                del o.x
                m, changed = o, {"x"}
            elif mut == "with_x":
                m, changed = o.with_x(v, **kw), {"x"}
            elif mut == "transform_x":
                m, changed = o.transform_x(lambda t: t + v, **kw), {"x"}
            elif mut == "reset_x":
                m, changed = o.reset_x(**kw), {"x"}
            elif mut == "update_x":
                m, changed = o.update(x=v, **kw), {"x"}
            elif mut == "setattr_w":
                assume(inplace)
                o.w = v
                m, changed = o, {"w"}
            elif mut == "with_w":
                m, changed = o.with_w(v, **kw), {"w"}
            elif mut == "update_xw":
                m, changed = o.update(x=v, w=v + 1, **kw), {"x", "w"}
            elif mut == "with_x_item":
                m, changed = o.with_xs_item(v, **kw), {"xs"}
            elif mut == "setattr_um":
                assume(inplace)
                o.um = v
                m, changed = o, {"um"}
            elif mut == "setattr_z":
                assume(inplace)
                o.z = v
                m, changed = o, {"z"}
            elif mut == "reset_all":
                m, changed = o.reset(**kw), {"x", "w", "z", "xs", "bal", "nd"}
            elif mut == "setattr_nd":
                assume(inplace)
                o.nd = v
                m, changed = o, {"nd"}
            elif mut == "del_nd":
                assume(inplace)
                del o.nd
                m, changed = o, {"nd"}
            elif mut == "reset_nd":
                m, changed = o.reset_nd(**kw), {"nd"}
            elif mut == "setattr_bal":
                assume(inplace and v >= 0)
                o.bal = v
                m, changed = o, {"bal"}
            elif mut == "bad_bal":  # passes the type check, the raw write is refused by the property setter
                failed_expected = True
                assume(inplace)
                o.bal = -5
                m = o
            elif mut == "bad_x":
                failed_expected = True
                m = o.with_x(pick(["s", None, 1.5], v % 3), **kw)
            elif mut == "bad_w":
                failed_expected = True
                if inplace:
                    o.w = "s"
                    m = o
                else:
                    m = o.update(w="s")
            elif mut == "without_x_item_missing":
                failed_expected = True
                m = o.without_xs_item(5, _by_index=True, **kw)
            else:
                raise AssertionError(mut)
            exc = None
        except (Violation, Skip):
            raise
        except Exception as ex:
            m, exc = None, ex
        tag = f"C11/{cname}/{mut}/{'inplace' if inplace else 'copy'}"
        if failed_expected:
            check(exc is not None, "ill-typed / missing-target mutation must fail", f"{tag}/not-refused")
            # mutations that fail discard nothing
            for n in derived:
                check((n in o.__dict__) == cached_before[n], "mutations that fail discard nothing", f"{tag}/failed-mutation-discarded-{n}")
            check(o.z is z_before or o.z == z_before, "mutations that fail discard nothing (invalidated_by attribute)", f"{tag}/failed-mutation-reset-z")
            check(o.audit == "checked", "mutations that fail discard nothing (attribute invalidated_by the attribute whose write failed)", f"{tag}/failed-mutation-reset-audit")
            return "failed-mutation"
        check(exc is None, "a well-typed mutation must not raise", f"{tag}/unexpected-{type(exc).__name__}", lambda: repr(exc))
        # (a) the next read of every derived value equals the getter on current state
        exp = expected(m, cname)
        for n in derived:
            got = getattr(m, n)
            check(got is exp[n] or got == exp[n], "after a successful mutation of a dependency the next read recomputes the property from current state (transitively)", f"{tag}/stale-{n}", lambda: f"{n}: got {got!r} want {exp[n]!r} (x={m.x!r} w={m.w!r} cached_before={cached_before!r})")
        # invalidated_by attribute: back at its default after a change of x, untouched otherwise
        if "x" in changed or mut == "reset_all":
            check(m.z == 7, "an attribute declared invalidated_by is back at its default", f"{tag}/z-not-reset", lambda: f"z={m.z!r}")
        elif mut != "setattr_z":
            check(m.z is z_before or m.z == z_before, "mutating unrelated attributes discards nothing", f"{tag}/z-discarded", lambda: f"{m.z!r} vs {z_before!r}")
        # (b) unrelated mutations discard nothing: a cache that was filled and does not depend on the changed attributes
        # is served without calling the getter again
        if "bal" in changed:
            check(m.audit == "", "an attribute declared invalidated_by is back at its default", f"{tag}/audit-not-reset")
        elif mut != "reset_all":
            check(m.audit == "checked", "mutating unrelated attributes discards nothing", f"{tag}/audit-discarded")
        deps = {"p": {"x"}, "q": {"x"}, "sx": {"xs"}, "end": {"x"}, "pu": {"um"}, "r": {"w"}, "po": {"x"}, "digest": {"bal"}, "aw": {"xs"}}
        if inplace and mut != "reset_all":
            for n, dd in deps.items():
                if n in derived and cached_before[n] and not (dd & changed):
                    check(CALLS.get(n, 0) == 0, "mutating unrelated attributes discards nothing (cache kept)", f"{tag}/unrelated-discarded-{n}", lambda: f"{CALLS!r}")
        return "ok"

    h.__name__ = f"inv_{fam}_{cname}_{mut}"
    return h


def _warm():
    out = []
    for bits in range(0, 64, 7):
        b = [(bits >> t) & 1 == 1 for t in range(6)]
        for ip in (False, True):
            for oz in (False, True):
                out.append((3, 4, *b, oz, 9, 5, ip))
    return out


def obligations(tier):
    obs = []
    T = 200 if tier == "quick" else 900
    for fam in ("eager",) if tier == "quick" else ("eager", "lazy"):
        for cname in ("G", "GS", "GP"):
            for mut in MUTS:
                if cname != "G" and mut not in ("setattr_x", "with_x", "setattr_w", "with_w", "bad_x", "update_xw"):
                    continue
                obs.append(Ob(f"C11.{fam}.{cname}.{mut}", make_h(fam, cname, mut), _warm(), f"class {cname} ({fam}): derived values p(x), q(p) chain, star('*'), sx(container), end(mid(x)) through an uncached link, pu(unmanaged attr){', r(w) added in the subclass' if cname == 'GS' else ''}{', caches filled in __post_init__' if cname == 'GP' else ''}; z invalidated_by x; symbolic x, w, assigned z, mutation value; symbolic cache-filled bits for each derived value; mutation {mut}; _inplace symbolic", expect=set(), timeout=T))
    return obs
