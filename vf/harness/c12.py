"""C12 — spec_property and classproperty follow the override / cache / getter protocol.

All 16 combinations of (overridable, cache, custom setter, custom deleter) are selected by symbolic bools; a history of
three operations from {read, assign v, delete, change underlying state} (symbolic selectors, symbolic values) is run on
the real descriptor and on an explicit state-machine model; value or exception class of every access must agree.
"""
from spec_classes import classproperty, spec_class, spec_property

from vf.sym import Ob, Violation, assume, check, pick


def _getter(self):
    self._calls = getattr(self, "_calls", 0) + 1
    if self.u is None:
        return None  # a getter may legitimately return None (falsy / None results must be cached and overridable too)
    return self.u * 2


def _setter(self, v):
    self.__dict__["u"] = v  # custom setter: writes the underlying state


def _deleter(self):
    self.__dict__["u"] = -1  # custom deleter: resets the underlying state


def make_plain(overridable, cache, has_setter, has_deleter, via_decorator=False):
    if via_decorator:  # @prop.setter / @prop.deleter build clones of the descriptor
        p = spec_property(_getter, overridable=overridable, cache=cache)
        if has_setter:
            p = p.setter(_setter)
        if has_deleter:
            p = p.deleter(_deleter)
    else:
        p = spec_property(_getter, _setter if has_setter else None, _deleter if has_deleter else None, overridable=overridable, cache=cache)
    return type("P", (), {"p": p, "u": 0})


def make_spec(overridable, cache, has_setter, has_deleter, with_preparer):
    ns = {"__annotations__": {"u": int, "p": int}, "u": 0, "p": spec_property(_getter_spec, _setter if has_setter else None, _deleter if has_deleter else None, overridable=overridable, cache=cache)}
    if with_preparer:
        ns["_prepare_p"] = _prep
    return spec_class(bootstrap=True)(type("S", (), ns))


def _getter_spec(self):
    # returns a str for negative underlying values (to be cast by the preparer or refused by the type check)
    if self.u < 0:
        return "neg"
    return self.u * 2


def _prep(self, v):
    if isinstance(v, str):
        return len(v)
    return v


FLAGS = [(o, c, s, d) for o in (False, True) for c in (False, True) for s in (False, True) for d in (False, True)]
PLAIN = {f: make_plain(*f) for f in FLAGS}
PLAIN_DEC = {f: make_plain(*f, via_decorator=True) for f in FLAGS}
SPEC = {(f, wp): make_spec(*f, wp) for f in FLAGS for wp in (False, True)}


class Model:
    def __init__(self, flags, u, kind, with_preparer=False):
        self.o, self.c, self.s, self.d = flags
        self.u = u
        self.slot = None  # ("override"| "cache", value)
        self.kind = kind
        self.wp = with_preparer

    def getter(self):
        if self.kind == "spec" and self.u < 0:
            if self.wp:
                return ("ok", 3)  # "neg" cast by the preparer
            return ("raise", ValueError)  # getter result fails the attribute's type check
        if self.u is None:
            return ("ok", None)
        return ("ok", self.u * 2)

    def read(self):
        if self.slot is not None and (self.o or self.c):
            return ("ok", self.slot[1])
        r = self.getter()
        if r[0] == "ok" and self.c:
            self.slot = ("cache", r[1])
        return r

    def assign(self, v):
        if self.s:
            self.u = v
            return ("ok", None)
        if self.o:
            self.slot = ("override", v)
            return ("ok", None)
        return ("raise", AttributeError)

    def delete(self):
        if self.d:
            self.u = -1
            return ("ok", None)
        if (self.o or self.c) and self.slot is not None:
            self.slot = None
            return ("ok", None)
        return ("raise", AttributeError)

    def change(self, v):
        self.u = v
        return ("ok", None)


def run_real(fn):
    try:
        return ("ok", fn())
    except Violation:
        raise
    except Exception as ex:
        return ("raise", ex)


def make_step(kind, nops):
    def h(o: bool, c: bool, s: bool, d: bool, wp: bool, u0: int, op1: int, v1: int, op2: int, v2: int, op3: int, v3: int, z1: bool, z2: bool, z3: bool) -> str:
        flags = (bool(o), bool(c), bool(s), bool(d))
        if kind == "plain":
            cls = PLAIN_DEC[flags] if wp else PLAIN[flags]  # wp selects decorator-attached setter/deleter on plain classes
            wp_ = False
        else:
            wp_ = bool(wp)
            cls = SPEC[(flags, wp_)]
        inst = cls()
        if kind == "plain":
            inst.u = u0
        else:
            inst.u = u0
        model = Model(flags, u0, kind, wp_)
        ops = [(op1, v1, z1), (op2, v2, z2), (op3, v3, z3)][:nops]
        trace = []
        for t, (op, v, z) in enumerate(ops):
            assume(0 <= op <= 3)
            if kind == "plain" and op in (1, 3) and z:
                v = None  # None as assigned value / underlying state
            if op == 0:
                want = model.read()
                got = run_real(lambda: inst.p)
                name = "read"
            elif op == 1:
                if kind == "spec":
                    assume(v >= 0)  # ints only; the spec class type-checks assignments (C03's subject)
                want = model.assign(v)
                got = run_real(lambda: setattr(inst, "p", v))
                name = "assign"
            elif op == 2:
                want = model.delete()
                got = run_real(lambda: delattr(inst, "p"))
                name = "delete"
            else:
                want = model.change(v)
                got = run_real(lambda: inst.__dict__.__setitem__("u", v)) if kind == "plain" else run_real(lambda: setattr(inst, "u", v))
                name = "change"
            trace.append(name)
            tag = f"C12/{kind}/{name}"
            if want[0] == "raise":
                check(got[0] == "raise", f"{name} must raise {want[1].__name__}", f"{tag}/should-raise-{want[1].__name__}", lambda: f"flags(o,c,s,d)={flags} trace={trace} returned {got[1]!r}")
                check(isinstance(got[1], want[1]), f"{name} raises {want[1].__name__}", f"{tag}/wrong-exception-{type(got[1]).__name__}", lambda: repr(got[1]))
            else:
                check(got[0] == "ok", f"{name} must not raise", f"{tag}/unexpected-{type(got[1]).__name__}", lambda: f"flags(o,c,s,d)={flags} trace={trace} {got[1]!r}")
                if name == "read":
                    check(got[1] is want[1] or got[1] == want[1], "read returns override, else value cached since the last deletion (caching on), else the getter's result on current state", f"{tag}/value", lambda: f"flags(o,c,s,d)={flags} wp={wp_} trace={trace} got {got[1]!r} want {want[1]!r}")
        # final observation: one more read must agree (state after the history)
        want = model.read()
        got = run_real(lambda: inst.p)
        if want[0] == "raise":
            check(got[0] == "raise" and isinstance(got[1], want[1]), "final read raises", f"C12/{kind}/final-read/should-raise", lambda: f"{flags} {trace} {got!r}")
        else:
            check(got[0] == "ok" and (got[1] is want[1] or got[1] == want[1]), "state after the history agrees with the protocol", f"C12/{kind}/final-read/value", lambda: f"flags(o,c,s,d)={flags} wp={wp_} trace={trace} got {got!r} want {want!r}")
        return "ok"

    h.__name__ = f"sp_{kind}_{nops}"
    return h


# ---------------------------------------------------------------------------------------------------------------------
# classproperty over a three-class hierarchy


def _cp_getter(cls):
    return cls.base * 2 + cls.off


def _make_cp(cache, per_sub, overridable):
    cp = classproperty(_cp_getter, cache=cache, cache_per_subclass=per_sub, overridable=overridable)
    A = type("A", (), {"cp": cp, "base": 0, "off": 0})
    B = type("B", (A,), {"off": 1})
    C = type("C", (B,), {"off": 2})
    return A, B, C, cp


CPS = {(c, p, o): _make_cp(c, p, o) for c in (False, True) for p in (False, True) for o in (False, True)}


def make_cp_step(nops, fixed=None):
    def h(cache: bool, per_sub: bool, overridable: bool, base0: int, op1: int, w1: int, v1: int, op2: int, w2: int, v2: int, op3: int, w3: int, v3: int, z1: bool, z2: bool, z3: bool) -> str:
        cache, per_sub, overridable = fixed if fixed is not None else (bool(cache), bool(per_sub), bool(overridable))

        # descriptor + hierarchy are built at import time (CrossHair mis-models calling a class with a custom __new__
        # such as classproperty(...) under tracing: the decorator closure is returned); state is reset per path.
        A, B, C, cp = CPS[(cache, per_sub, overridable)]
        cp.__dict__.pop("_cache", None)
        A.base = base0
        classes = [A, B, C]
        store = {}
        mbase = [base0]

        def key(k):
            return k if per_sub else None

        ops = [(op1, w1, v1, z1), (op2, w2, v2, z2), (op3, w3, v3, z3)][:nops]
        trace = []
        for op, w, v, z in ops:
            assume(0 <= op <= 4)
            if op == 2 and z:
                v = None  # override with None
            assume(0 <= w <= 2)
            K = pick(classes, w)
            ki = classes.index(K)
            if op == 0 or op == 1:  # read through the class / through an instance
                if key(ki) in store:
                    want = store[key(ki)]
                else:
                    want = mbase[0] * 2 + ki
                    if cache:
                        store[key(ki)] = want
                got = run_real((lambda: K.cp) if op == 0 else (lambda: K().cp))
                trace.append(("read", ki))
                check(got[0] == "ok" and (got[1] is want or got[1] == want), "classproperty read: override/cache per class (or per subclass when so configured), else getter", "C12/classproperty/read", lambda: f"cache={cache} per_sub={per_sub} overridable={overridable} trace={trace} got {got!r} want {want!r}")
            elif op == 2:  # assign through an instance
                got = run_real(lambda: setattr(K(), "cp", v))
                trace.append(("assign", ki))
                if overridable:
                    store[key(ki)] = v
                    check(got[0] == "ok", "assignment to an overridable classproperty", "C12/classproperty/assign-raises", lambda: repr(got))
                else:
                    check(got[0] == "raise" and isinstance(got[1], AttributeError), "assignment raises AttributeError when not overridable and no setter", "C12/classproperty/assign-accepted", lambda: repr(got))
            elif op == 3:  # delete through an instance
                got = run_real(lambda: delattr(K(), "cp"))
                trace.append(("delete", ki))
                if key(ki) in store:
                    del store[key(ki)]
                    check(got[0] == "ok", "deletion removes the override or cache", "C12/classproperty/delete-raises", lambda: repr(got))
                else:
                    check(got[0] == "raise" and isinstance(got[1], AttributeError), "deletion raises when there is none", "C12/classproperty/delete-accepted", lambda: f"{trace} {got!r}")
            else:  # change underlying class state
                A.base = v
                mbase[0] = v
                trace.append(("change",))
        return "ok"

    h.__name__ = f"cp_{nops}"
    return h


def obligations(tier):
    obs = []
    nops = 2 if tier == "quick" else 3
    T = 200 if tier == "quick" else 1200
    warm = [(o, c, s, d, wp, 3, a, 5, b, 7, 0, 1, a == 1, False, False) for o in (False, True) for c in (False, True) for s in (False, True) for d in (False, True) for wp in (False, True) for a in range(4) for b in (0, 2)]
    obs.append(Ob(f"C12.plain.h{nops}", make_step("plain", nops), warm, f"plain class; overridable, cache, setter, deleter symbolic bools (all 16 combinations), setter/deleter passed to the constructor or attached with @prop.setter/@prop.deleter (symbolic); history of {nops} operations from {{read, assign v, delete, change underlying}} with symbolic selectors and symbolic values (ints, or None by a symbolic flag), followed by a final read", expect={"ok"}, timeout=T))
    warm_s = [(o, c, s, d, wp, u, a, 5, b, 7, 0, 1, False, False, False) for o in (False, True) for c in (False, True) for s in (False,) for d in (False, True) for wp in (False, True) for a in range(4) for b in (0, 2) for u in (3, -2)]
    obs.append(Ob(f"C12.spec.h{nops}", make_step("spec", nops), warm_s, f"spec class with managed annotation p:int, with/without preparer (symbolic); getter returns a str for negative underlying state (cast by the preparer or refused by the type check); same flags / history space as the plain shard", expect={"ok"}, timeout=T * 2))
    warm_c = [(c, p, o, 2, a, 0, 5, b, 1, 6, 3, 2, 7, a == 2, False, False) for c in (False, True) for p in (False, True) for o in (False, True) for a in range(5) for b in range(5)]
    for fx in [(c, p, o) for c in (False, True) for p in (False, True) for o in (False, True)]:
        obs.append(Ob(f"C12.classproperty.c{int(fx[0])}p{int(fx[1])}o{int(fx[2])}.h{nops}", make_cp_step(nops, fx), warm_c, f"classproperty(cache={fx[0]}, cache_per_subclass={fx[1]}, overridable={fx[2]}) on A>B>C; history of {nops} operations from {{read via class, read via instance, assign, delete, change class state}} on a symbolic class of the hierarchy", expect={"ok"}, timeout=T))
    return obs
