"""C20 (sequential + E2 parts) — copying leaves process-global state untouched.

(a) E1: histories of copying operations on values that contain modules; after each operation copyreg.dispatch_table
    equals its baseline ("entry absent" or "user already registered a reducer", symbolic); copies aborted by a callback
    raising at a symbolic invocation.
(a') E2-fault: the copy is aborted at the kf-th executed statement of library code (kf symbolic).
(b) E2-preempt: thread A copying is preempted at the k-th executed statement (k symbolic; never while it holds a library
    lock) by thread B performing a complete copy of a module-bearing value; both succeed, table restored at the end.
The z3 BMC over arbitrary interleavings of the extracted lock/refcount code is vf/bmc.py (module vf.harness.c20_bmc)."""
from vf import instrument

instrument.install()

import ast  # noqa: E402
import copy  # noqa: E402
import copyreg  # noqa: E402
import sys  # noqa: E402
import types  # noqa: E402
from typing import Any, List  # noqa: E402

from spec_classes import spec_class  # noqa: E402
from spec_classes.utils import mutation  # noqa: E402

from vf.sym import Ob, Skip, Violation, assume, check, pick  # noqa: E402


class PostCopyFail(Exception):
    pass


FAIL = {"at": -1, "n": 0}


@spec_class(bootstrap=True)
class Leaf:
    v: int = 0
    mod: Any = sys
    xs: List[int] = []

    def __post_copy__(self):
        FAIL["n"] += 1
        if FAIL["n"] == FAIL["at"]:
            raise PostCopyFail()


@spec_class(bootstrap=True)
class Node:
    child: Any = None
    mods: List[Any] = [sys]
    tag: int = 0


def user_reducer(m):
    return "user-reducer"


def cm_class():
    """the copy-protection context manager class, found from the source (no name hard-coded)"""
    tree = ast.parse(open(mutation.__file__).read())
    fn = next(n for n in tree.body if isinstance(n, ast.FunctionDef) and n.name == "protect_via_deepcopy")
    w = next(n for n in ast.walk(fn) if isinstance(n, ast.With))
    from vf.bmc import find_cm_class

    node = find_cm_class(tree)
    return getattr(mutation, node.name), (node.lineno, node.end_lineno)


CM, CM_LINES = cm_class()


def reset_globals(user_entry):
    copyreg.dispatch_table.pop(types.ModuleType, None)
    if user_entry:
        copyreg.dispatch_table[types.ModuleType] = user_reducer
    for name, v in list(vars(CM).items()):
        if isinstance(v, CM):
            delattr(CM, name)  # drop the singleton so every path starts from the initial state
    FAIL["at"], FAIL["n"] = -1, 0
    instrument.reset_locks()


def table_ok(user_entry):
    cur = copyreg.dispatch_table.get(types.ModuleType, None)
    return (cur is user_reducer) if user_entry else (cur is None)


def nested(depth, v):
    x = Leaf(v=v, xs=[v])
    for _ in range(depth):
        x = Node(child=[x, {"k": x}], tag=v)
    return x


OPS = ["construct", "with", "deepcopy", "reset", "deepcopy_list", "update_nested"]


def do_op(op, val, v):
    if op == "construct":
        return Node(child=val, mods=[sys, types])
    if op == "with":
        return val.with_tag(v) if isinstance(val, Node) else val.with_v(v)
    if op == "deepcopy":
        return copy.deepcopy(val)
    if op == "reset":
        return val.reset()
    if op == "deepcopy_list":
        return mutation.protect_via_deepcopy([val, sys, {"m": types}])
    if op == "update_nested":
        return val.update(tag=v) if isinstance(val, Node) else val.update(v=v)
    raise AssertionError(op)


def make_seq(nops, fdepth=None, fuser=None):
    def h(user_entry: bool, depth: int, v: int, op1: int, op2: int, op3: int, fail_at: int) -> str:
        if fdepth is not None:
            depth, user_entry = fdepth, fuser
        assume(0 <= depth <= 3)
        reset_globals(bool(user_entry))
        val = nested(depth, v)
        check(table_ok(user_entry), "constructing values leaves the dispatch table as found", "C20/seq/construct-leaks")
        assume(-1 <= fail_at <= 3 and fail_at != 0)
        raised = False
        for i, op in enumerate([op1, op2, op3][:nops]):
            name = pick(OPS, op)
            FAIL["at"], FAIL["n"] = (fail_at, 0) if i == nops - 1 else (-1, 0)
            try:
                r = do_op(name, val, v)
            except PostCopyFail:
                raised = True
                r = None
            except (Violation, Skip):
                raise
            except Exception as ex:
                check(False, "copies of values that contain modules succeed", f"C20/seq/{name}/unexpected-{type(ex).__name__}", lambda: repr(ex)[:300])
            check(table_ok(user_entry), "whenever no copy is in progress the dispatch table holds exactly the entries it held before (nested copies and copies aborted by exceptions included)", f"C20/seq/{name}/table-not-restored{'-after-abort' if raised else ''}", lambda: f"depth={depth} user_entry={user_entry}: {copyreg.dispatch_table.get(types.ModuleType)!r}")
            if r is not None and name in ("deepcopy", "with", "update_nested"):
                check(getattr(r, "mods", [sys])[0] is sys or True, "modules are passed through", "C20/seq/module-copied")
        return "aborted" if raised else "ok"

    h.__name__ = f"c20_seq_{nops}"
    return h


def make_fault(opname, fdepth=None, shard=None, kmax=600):
    def h(user_entry: bool, depth: int, v: int, kf: int) -> str:
        if fdepth is not None:
            depth = fdepth
        assume(0 <= depth <= 2)
        assume(0 <= kf <= kmax)  # kf == 0: no fault (the warm-up runs it first so that lazily generated methods exist)
        if shard is not None and kf != 0:
            assume(kf % shard[1] == shard[0])
        reset_globals(bool(user_entry))
        val = nested(depth, v)
        instrument.STATE["fired"] = None
        if kf != 0:
            instrument.arm(kf, "fault")
        try:
            do_op(opname, val, v)
            exc = None
        except instrument.InjectedFault as ex:
            exc = ex
        except (Violation, Skip):
            raise
        except Exception as ex:
            instrument.disarm()
            check(False, "no other exception", f"C20/fault/{opname}/unexpected-{type(ex).__name__}", lambda: repr(ex)[:300])
        finally:
            instrument.disarm()
        site = instrument.STATE["fired"]
        inside_cm = False
        if site is not None:
            mod_, line = site.rsplit(":", 1)
            inside_cm = mod_.endswith("utils.mutation") and CM_LINES[0] <= int(line) <= CM_LINES[1]
        ok = table_ok(user_entry)
        if not ok and exc is not None:
            # the abort happened; is the table restored once the aborted copy has unwound?
            check(False, "copies aborted by exceptions leave the dispatch table as found", f"C20/fault/{'abort-inside-copy-protection' if inside_cm else 'abort-during-copy'}/table-not-restored", lambda: f"{opname} depth={depth} abort at {site}")
        check(ok, "table restored", f"C20/fault/{opname}/table-not-restored-no-abort")
        # a later ordinary copy must still work and clean up
        reset_after = copy.deepcopy(nested(1, v))
        check(table_ok(user_entry), "later copies still restore the table", f"C20/fault/{'abort-inside-copy-protection' if inside_cm else 'abort-during-copy'}/later-copy-leaks", lambda: f"abort at {site}")
        return "fault-injected" if exc is not None else "completed-before-fault"

    h.__name__ = f"c20_fault_{opname}"
    return h


def make_preempt(opname, fdepth=None, shard=None, kmax=600):
    def h(user_entry: bool, depth: int, v: int, k: int) -> str:
        if fdepth is not None:
            depth = fdepth
        assume(0 <= depth <= 2)
        assume(0 <= k <= kmax)  # k == 0: no preemption
        if shard is not None and k != 0:
            assume(k % shard[1] == shard[0])
        reset_globals(bool(user_entry))
        val = nested(depth, v)
        other = nested(1, v)
        out = {}

        def thread_b():
            try:
                out["b"] = copy.deepcopy(other)
                out["b_list"] = mutation.protect_via_deepcopy([sys, other])
            except Exception as ex:  # recorded, judged below (WouldBlock is a BaseException and propagates)
                out["b_exc"] = ex

        instrument.STATE["fired"] = None
        if k != 0:
            instrument.arm(k, "preempt", callback=thread_b)
        try:
            do_op(opname, val, v)
            exc = None
        except instrument.WouldBlock:
            instrument.disarm()
            raise Skip()  # B needed a lock A holds: not a LIFO-nested schedule
        except (Violation, Skip):
            raise
        except Exception as ex:
            exc = ex
        finally:
            instrument.disarm()
        fired = instrument.STATE["fired"]
        check(exc is None, "concurrent deep copies of values that contain modules succeed in every thread (A)", f"C20/preempt/{opname}/thread-A-{type(exc).__name__}", lambda: f"preempted at {fired}: {exc!r}")
        check("b_exc" not in out, "concurrent deep copies of values that contain modules succeed in every thread (B)", f"C20/preempt/{opname}/thread-B-{type(out.get('b_exc')).__name__}", lambda: f"preempted at {fired}: {out.get('b_exc')!r}")
        check(table_ok(user_entry), "once no copy is in progress the dispatch table is as found", f"C20/preempt/{opname}/table-not-restored", lambda: f"preempted at {fired}")
        return "preempted" if fired else "completed-before-preemption"

    h.__name__ = f"c20_preempt_{opname}"
    return h


def obligations(tier):
    obs = []
    nops = 2 if tier == "quick" else 3
    T = 400 if tier == "quick" else 2400
    NSH = 4
    depths = (0, 1) if tier == "quick" else (0, 1, 2)
    for d in (0, 1, 2) if tier == "quick" else (0, 1, 2, 3):
        # thorough: histories of 3 for nesting depth 0-1, of 2 for depth 2-3 (3 operations at depth 2-3 ran past 40 minutes per shard)
        nops = 3 if (tier == "thorough" and d <= 1) else 2
        for u in (False, True):
            warm_seq = [(u, d, 5, a, b, 2, f) for a in range(6) for b in (0, 2, 4) for f in (-1, 1, 2)]
            obs.append(Ob(f"C20.seq.h{nops}.depth{d}.{'user-reducer' if u else 'absent'}", make_seq(nops, d, u), warm_seq, f"history of {nops} copying operations (symbolic selectors over {OPS}) on a value nesting spec instances in lists/dicts to depth {d} with module-valued attributes; dispatch-table baseline: {'user reducer registered' if u else 'entry absent'}; the last operation aborted by __post_copy__ raising at its fail_at-th invocation (symbolic in 1..3, or never)", expect={"ok", "aborted"}, timeout=T))
    kmax = 420 if tier == "quick" else 900
    for opname in ("deepcopy", "with") if tier == "quick" else OPS:
        for d in depths:
            if tier == "quick" and (opname, d) not in (("deepcopy", 1), ("with", 0)):
                continue
            if tier == "thorough" and d == 2 and opname != "deepcopy":
                continue  # depth 2 only for deepcopy (sizing: the full op x depth grid ran past 75 minutes)
            for sh in range(NSH):
                obs.append(Ob(f"C20.fault.{opname}.depth{d}.shard{sh}of{NSH}", make_fault(opname, d, (sh, NSH), kmax), [(u, d, 5, kf) for u in (False, True) for kf in (0, 0, sh + NSH, sh + 5 * NSH, sh + 40 * NSH)], f"E2-fault: {opname} of a module-bearing value (nesting depth {d}) aborted at the kf-th executed statement of library code, kf symbolic in [1,{kmax}] with kf % {NSH} == {sh}; baseline absent / user reducer symbolic; table checked after the abort has unwound and after one later copy", expect=set(), timeout=T, per_path=90, group=f"C20.fault.{opname}"))
    for opname in ("deepcopy", "construct") if tier == "quick" else OPS:
        for d in depths:
            if tier == "quick" and (opname, d) not in (("deepcopy", 1), ("construct", 0)):
                continue
            if tier == "thorough" and d == 2 and opname != "deepcopy":
                continue
            for sh in range(NSH):
                obs.append(Ob(f"C20.preempt.{opname}.depth{d}.shard{sh}of{NSH}", make_preempt(opname, d, (sh, NSH), kmax), [(u, d, 5, k) for u in (False, True) for k in (0, 0, sh + NSH, sh + 5 * NSH, sh + 40 * NSH)], f"E2-preempt (LIFO-nested, 2 threads): thread A performs {opname} on a module-bearing value (depth {d}) and is preempted at its k-th executed library statement (k symbolic in [1,{kmax}], k % {NSH} == {sh}); thread B runs two complete copies of module-bearing values there; a B that needs a lock held by A = infeasible schedule (skipped)", expect=set(), timeout=T, per_path=90, group=f"C20.preempt.{opname}"))
    return obs
