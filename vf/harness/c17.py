"""C17 — every generated method accepts exactly what its advertised signature says.

(1) unit level: MethodBuilder is driven through its public API with a spying implementation; parameter defaults, the
    number of virtual (spec-attribute) keywords and a virtual **kwargs are chosen by symbolic selectors; which arguments
    a call passes (positionally / by keyword / omitted, plus one unadvertised name) by symbolic bits; values symbolic.
    Oracle: inspect.signature(method).bind(...) succeeds <=> the call is accepted; the spy received exactly the values
    given (shown defaults for omitted real parameters, nothing for omitted virtual ones); an unadvertised keyword raises
    TypeError and the spy was not called.
(2) per generated method of the template classes: advertised nested keywords correspond one-to-one to the init-enabled
    attributes of the nested class, every advertised nested keyword is accepted and reaches the behaviour with the
    (symbolic) value given, unadvertised names raise TypeError before anything is changed."""
import inspect
from typing import List

from spec_classes import MISSING, Attr, spec_class
from spec_classes.utils.method_builder import MethodBuilder

from vf.grammar import EAGER, LAZY
from vf.snapshot import same, snap
from vf.sym import Ob, Skip, Violation, assume, check, pick

REC = {}


def spy(self, a, b=20, *, c=30, **kwargs):
    REC["called"] = REC.get("called", 0) + 1
    REC["args"] = dict(a=a, b=b, c=c, kwargs=dict(kwargs))
    return "spied"


def make_unit(fb=None, fn=None):
    def h(b_default: bool, nvirt: int, varkw: bool, pass_a: int, pass_b: int, pass_c: bool, pass_v1: bool, pass_v2: bool, pass_unk: bool, un: int, va: int, vb: int, vc: int, v1: int, v2: int) -> str:
        if fb is not None:
            b_default, nvirt = fb, fn
        assume(0 <= nvirt <= 2)
        assume(0 <= pass_a <= 2 and 0 <= pass_b <= 2)  # 0 omitted, 1 positional, 2 keyword
        mb = MethodBuilder("m", spy).with_arg("a", desc="a")
        if b_default:
            mb = mb.with_arg("b", desc="b", default=21)
        else:
            mb = mb.with_arg("b", desc="b")
        mb = mb.with_arg("c", desc="c", default=31, kind="keyword_only")
        vnames = ["v1", "v2"][:nvirt]
        if vnames:
            mb = mb.with_args(vnames, virtual=True)
        if varkw:
            mb = mb.with_arg("extra", desc="extra", kind="var_keyword", virtual=True)
        method = mb.build()
        sig = inspect.signature(method)
        args, kwargs = [], {}
        if pass_a == 1:
            args.append(va)
        elif pass_a == 2:
            kwargs["a"] = va
        if pass_b == 1:
            if pass_a != 1:
                assume(False)  # positional b needs positional a
            args.append(vb)
        elif pass_b == 2:
            kwargs["b"] = vb
        if pass_c:
            kwargs["c"] = vc
        if pass_v1:
            kwargs["v1"] = v1
        if pass_v2:
            kwargs["v2"] = v2
        unk_name = None
        if pass_unk:
            unk_name = pick(["zz", "_priv", "self_", "kwargs"], un)
            kwargs[unk_name] = 1
        try:
            sig.bind(object(), *args, **kwargs)
            bindable = True
        except TypeError:
            bindable = False
        REC.clear()
        try:
            r = method(object(), *args, **kwargs)
            exc = None
        except (Violation, Skip):
            raise
        except Exception as ex:
            r, exc = None, ex
        tag = "C17/unit"
        if not bindable:
            check(isinstance(exc, TypeError), "a call the advertised signature cannot bind raises TypeError", f"{tag}/unbindable-accepted", lambda: f"sig={sig} args={args} kwargs={sorted(kwargs)} -> {r!r} {REC!r}")
            check(REC.get("called", 0) == 0, "... before anything is changed (the implementation is not reached)", f"{tag}/implementation-reached-on-bad-call", lambda: f"sig={sig} kwargs={sorted(kwargs)}")
            return "rejected"
        check(exc is None, "every call the advertised signature can bind is accepted", f"{tag}/bindable-rejected-{type(exc).__name__}", lambda: f"sig={sig} args={args} kwargs={sorted(kwargs)}: {exc!r}")
        got = REC.get("args")
        check(REC.get("called") == 1 and got is not None, "the implementation is reached exactly once", f"{tag}/not-reached")
        check(got["a"] is va or got["a"] == va, "advertised parameters reach the implementation with the value given", f"{tag}/value-a")
        want_b = vb if pass_b else 21
        check(got["b"] is want_b or got["b"] == want_b, "omitted parameters take the default shown in the signature", f"{tag}/value-b", lambda: f"{got['b']!r} vs {want_b!r}")
        want_c = vc if pass_c else 31
        check(got["c"] is want_c or got["c"] == want_c, "keyword-only default as shown", f"{tag}/value-c", lambda: f"{got['c']!r} vs {want_c!r}")
        want_kw = {}
        if pass_v1:
            want_kw["v1"] = v1
        if pass_v2:
            want_kw["v2"] = v2
        if unk_name is not None:
            want_kw[unk_name] = 1  # only bindable through the advertised **extra
        check(sorted(got["kwargs"]) == sorted(want_kw) and all(got["kwargs"][k] is want_kw[k] or got["kwargs"][k] == want_kw[k] for k in want_kw), "virtual keywords reach the implementation only when given", f"{tag}/virtual-kwargs", lambda: f"{got['kwargs']!r} vs {want_kw!r}")
        return "accepted"

    return h


# ---------------------------------------------------------------------------------------------------------------------
# per generated method

INNER_INIT = ["a", "tags"]  # init-enabled attributes of Inner (template spec)
ITEM_INIT = ["k", "v"]
FLAGS = {"_inplace", "_if"}
UNADVERTISED = ["zz", "_inplce", "_private", "y", "kids", "_a", "v"]


def methods_k3(NS):
    # method name -> (nested class attrs expected as keywords, how to call with a nested keyword, how to read it back)
    return {
        "__init__": (["inner", "inner2", "kids", "by_name", "y"], None),
        "with_inner": (INNER_INIT, lambda o, kw: o.with_inner(**kw), lambda r: r.inner),
        "update_inner": (INNER_INIT, lambda o, kw: o.update_inner(**kw), lambda r: r.inner),
        "transform_inner": (INNER_INIT, None, None),
        "with_inner2": (INNER_INIT, lambda o, kw: o.with_inner2(**kw), lambda r: r.inner2),
        "update_inner2": (INNER_INIT, lambda o, kw: o.update_inner2(**kw), lambda r: r.inner2),
        "with_kid": (INNER_INIT, lambda o, kw: o.with_kid(**kw), lambda r: r.kids[-1]),
        "update_kid": (INNER_INIT, lambda o, kw: o.update_kid(0, **kw), lambda r: r.kids[0]),
        "transform_kid": (INNER_INIT, None, None),
        "with_by_name_item": (INNER_INIT, lambda o, kw: o.with_by_name_item("n", **kw), lambda r: r.by_name["n"]),
        "update_by_name_item": (INNER_INIT, lambda o, kw: o.update_by_name_item("p", **kw), lambda r: r.by_name["p"]),
        "update": (["inner", "inner2", "kids", "by_name", "y"], None, None),
        "transform": (["inner", "inner2", "kids", "by_name", "y"], None, None),
        "without_kid": ([], None, None),
        "reset_inner": ([], None, None),
        "reset": ([], None, None),
    }


def make_method(fam, mname):
    NS = {"eager": EAGER, "lazy": LAZY}[fam]

    def h(va: int, tg: bool, un: int, unk: bool, which: int) -> str:
        spec = methods_k3(NS)[mname]
        expected = spec[0]
        o = NS.K3(inner=NS.Inner(a=1), kids=[NS.Inner(a=2)], by_name={"p": NS.Inner(a=3)})
        m = getattr(o, mname) if mname != "__init__" else NS.K3.__init__
        sig = inspect.signature(m)
        names = [p.name for p in sig.parameters.values() if p.kind in (p.KEYWORD_ONLY, p.POSITIONAL_OR_KEYWORD)]
        nested = [n for n in names if not n.startswith("_") and n != "self"]
        tag = f"C17/K3/{mname}"
        check(sorted(nested) == sorted(expected), "the nested-attribute keywords correspond one-to-one to the init-enabled attributes of the nested spec class", f"{tag}/advertised-keywords", lambda: f"advertised {nested!r} expected {expected!r}")
        if expected == INNER_INIT:
            dflt = {n: sig.parameters[n].default for n in INNER_INIT}
            check(dflt["a"] == 0 and dflt["a"] is not MISSING and dflt["tags"] == [], "defaults are as shown: nested keywords advertise the nested attribute's default (also falsy ones)", f"{tag}/advertised-defaults", lambda: f"{dflt!r}")
        s0 = snap(o)
        if unk:
            bad = pick(UNADVERTISED, un)
            if bad in names:
                assume(False)
            try:
                if mname == "__init__":
                    NS.K3(**{bad: 1})
                elif mname in ("update_kid", "transform_kid", "without_kid"):
                    m(0, **{bad: 1})
                elif mname in ("with_by_name_item", "update_by_name_item"):
                    m("p", **{bad: 1})
                else:
                    m(**{bad: 1})
                exc = None
            except (Violation, Skip):
                raise
            except Exception as ex:
                exc = ex
            check(isinstance(exc, TypeError), "any keyword outside the signature raises TypeError", f"{tag}/unadvertised-accepted", lambda: f"{bad!r}: {exc!r}")
            check(same(snap(o), s0), "... before anything is changed", f"{tag}/changed-before-TypeError")
            return "rejected"
        if len(spec) < 3 or spec[1] is None:
            return "signature-only"
        # every advertised nested keyword (single, and the pair) is accepted and reaches the behaviour
        kw = {}
        assume(0 <= which <= 2)
        if which in (0, 2):
            kw["a"] = va
        if which in (1, 2):
            kw["tags"] = ["t"] if tg else []
        try:
            r = spec[1](o, kw)
        except (Violation, Skip):
            raise
        except Exception as ex:
            check(False, "every advertised keyword is accepted", f"{tag}/advertised-rejected-{type(ex).__name__}", lambda: f"{kw!r}: {ex!r}")
        tgt = spec[2](r)
        if "a" in kw:
            check(tgt.a is va or tgt.a == va, "... and reaches the underlying behaviour with the value given", f"{tag}/value-a", lambda: f"{tgt.a!r} vs {va!r}")
        if "tags" in kw:
            check(tgt.tags == kw["tags"], "... and reaches the underlying behaviour with the value given", f"{tag}/value-tags")
        return "accepted"

    h.__name__ = f"method_{fam}_{mname}"
    return h


def make_overflow():
    """classes with an overflow attribute / init=False attributes: advertised constructor keywords"""

    def h(sel: int, v: int) -> str:
        @spec_class(init_overflow_attr="extras", bootstrap=True)
        class Base:
            a: int = 1

        @spec_class(bootstrap=True)
        class Child(Base):
            b: int = 2
            h: int = Attr(default=5, init=False)
            c: int = 3

        sig = inspect.signature(Child.__init__)
        names = [p.name for p in sig.parameters.values() if p.kind is p.KEYWORD_ONLY]
        check(sorted(names) == ["a", "b", "c"], "constructor keywords correspond one-to-one to the init-enabled attributes (also after an overflow attribute)", "C17/overflow/advertised-keywords", lambda: f"{names!r}")
        kw = {pick(["a", "b", "c"], sel): v}
        o = Child(**kw)
        k = list(kw)[0]
        check(getattr(o, k) is v or getattr(o, k) == v, "advertised keyword reaches the behaviour", "C17/overflow/value")
        dfl = {n: sig.parameters[n].default for n in ("a", "b", "c")}
        check(dfl == {"a": 1, "b": 2, "c": 3}, "defaults are as shown", "C17/overflow/advertised-defaults", lambda: f"{dfl!r}")

        @spec_class(bootstrap=True)
        class Zero:  # falsy defaults must be advertised as such
            n: int = 0
            s: str = ""
            f: bool = False

        zd = {n: p.default for n, p in inspect.signature(Zero.__init__).parameters.items() if n != "self"}
        check(zd == {"n": 0, "s": "", "f": False}, "defaults are as shown (falsy defaults)", "C17/ctor/falsy-defaults-not-advertised", lambda: f"{zd!r}")

        @spec_class(bootstrap=True)
        class RBase:
            x: int = 1
            w: str = "w"

        @spec_class(bootstrap=True)
        class RSub(RBase):  # re-declares an inherited attribute
            x: int = 7

        r = RSub(x=v)
        check(r.x is v or r.x == v, "every advertised keyword is accepted and reaches the underlying behaviour with the value given (re-declared inherited attribute)", "C17/ctor/redeclared-keyword-dropped", lambda: f"RSub(x={v!r}).x == {r.x!r}")

        @spec_class(bootstrap=True)
        class HP:
            a: int = 0
            hidden: int = Attr(default=1, init=False)

        @spec_class(bootstrap=True)
        class HS(HP):  # overrides only the DEFAULT of the inherited init=False attribute: it stays init=False
            hidden = 5

        @spec_class(bootstrap=True)
        class Holder:
            h: HS
            hs: List[HS] = []

        def kwnames(fn):
            return sorted(p.name for p in inspect.signature(fn).parameters.values() if p.kind is p.KEYWORD_ONLY and not p.name.startswith("_"))

        check(kwnames(HS.__init__) == ["a"], "constructor keywords correspond one-to-one to the init-enabled attributes (init=False attribute inherited, default overridden)", "C17/inherited-init-false/ctor-keywords", lambda: f"{kwnames(HS.__init__)!r}")
        for mname in ("with_h", "update_h", "with_h_item" if hasattr(Holder, "with_h_item") else "with_hs_item"):
            check(kwnames(getattr(Holder, mname)) == ["a"], "the nested-attribute keywords correspond one-to-one to the init-enabled attributes of the nested spec class", f"C17/inherited-init-false/{mname}-keywords", lambda: f"{mname}: {kwnames(getattr(Holder, mname))!r}")
        try:
            Holder().with_h(hidden=v)
            accepted = True
        except TypeError:
            accepted = False
        check(not accepted, "any keyword outside the signature raises TypeError", "C17/inherited-init-false/unadvertised-accepted")
        hv = Holder().with_h(a=v).h
        check((hv.a is v or hv.a == v) and hv.hidden == 5, "every advertised keyword is accepted and reaches the behaviour", "C17/inherited-init-false/value", lambda: f"{hv!r}")
        return "ok"

    return h


def obligations(tier):
    obs = []
    T = 300 if tier == "quick" else 900
    warm = [(bd, nv, vk, pa, pb, pc, p1, p2, pu, 0, 1, 2, 3, 4, 5) for bd in (False, True) for nv in (0, 2) for vk in (False, True) for pa in (0, 1, 2) for pb in (0, 2) for pc in (False, True) for p1 in (False, True) for p2 in (False,) for pu in (False, True)]
    for fb, fn in [(b, n) for b in (False, True) for n in (0, 1, 2)]:
        obs.append(Ob(f"C17.unit.method_builder.bdefault{int(fb)}.virtual{fn}", make_unit(fb, fn), [w for w in warm if w[0] == fb and w[1] in (fn, 2 if fn == 1 else fn)], f"MethodBuilder: parameter b {'with' if fb else 'without'} default, {fn} virtual keywords, virtual **kwargs symbolic; each of a,b passed positionally / by keyword / omitted, c, v1, v2 and one unadvertised name passed or not (symbolic bits); values symbolic ints", expect={"accepted", "rejected"}, timeout=T * 2))
    obs = [o for o in obs if o.name != "C17.unit.method_builder"]
    for fam in ("eager",) if tier == "quick" else ("eager", "lazy"):
        for mname in methods_k3(EAGER):
            obs.append(Ob(f"C17.{fam}.K3.{mname}", make_method(fam, mname), [(5, tg, un, unk, w) for tg in (False, True) for un in range(7) for unk in (False, True) for w in range(3)], f"generated method K3.{mname}: advertised nested keywords vs init-enabled attributes of the nested class; single keywords and the pair with symbolic values; unadvertised names from {UNADVERTISED}", expect=set(), timeout=T))
    obs.append(Ob("C17.overflow.ctor", make_overflow(), [(s, 4) for s in range(3)], "subclass of a class with an overflow attribute, adding attributes incl. an init=False one: advertised constructor keywords", expect={"ok"}, timeout=T))
    return obs


# ---------------------------------------------------------------------------------------------------------------------
# every generated method of K1 / K2 / K4: advertised keyword-only parameters are the documented ones, each is accepted,
# any other keyword raises TypeError before anything is changed


def expected_kwonly(tmpl, name):
    flags = ["_inplace", "_if"]
    coll_list = {"num", "tag", "extra", "lst_item", "item", "kl2_item"}
    if tmpl == "K4" and "_" in name and name.split("_", 1)[1] in ("item", "bag_item", "lst_item", "kl2_item") and not name.startswith("without_"):
        nested = ITEM_INIT
    else:
        nested = []
    if name in ("update", "transform"):
        return sorted(flags + {"K1": ["x", "n", "s", "f", "o", "u", "lit"], "K2": ["nums", "opts", "vals", "tags", "y", "extras", "flags", "marks"], "K4": ["items", "bag", "lst", "y", "kl2"]}[tmpl])
    if name == "reset" or name.startswith("reset_"):
        return sorted(flags)
    kind, target = name.split("_", 1)
    if target in coll_list:  # list element helpers
        if kind == "with":
            return sorted(flags + ["_index", "_insert"] + nested)
        return sorted(flags + ["_by_index"] + nested)
    return sorted(flags + nested)


def make_all_methods(tmpl):
    def h(mi: int, un: int, unk: bool, v: int) -> str:
        NS = EAGER
        if tmpl == "K1":
            o = NS.K1(x=1)
        elif tmpl == "K2":
            o = NS.K2(nums=[1, 2], opts={"a": 1}, vals={1}, tags=["t"], extras=[3], flags={"f": 1}, marks={2})
        else:
            o = NS.K4(items=[NS.Item("a")], bag=[NS.Item("b")], lst=[NS.Item("c")])
        names = sorted(n for n in dir(type(o)) if n.startswith(("with_", "update", "transform", "reset", "without_")))
        name = pick(names, mi)
        m = getattr(o, name)
        sig = inspect.signature(m)
        kwonly = sorted(p.name for p in sig.parameters.values() if p.kind is p.KEYWORD_ONLY)
        want = expected_kwonly(tmpl, name)
        tag = f"C17/{tmpl}/{name}"
        check(kwonly == want, "parameter kinds are as shown: the advertised keyword-only parameters are the documented ones", f"{tag}/advertised-keywords", lambda: f"advertised {kwonly!r} documented {want!r}")
        positional = [p for p in sig.parameters.values() if p.kind is p.POSITIONAL_OR_KEYWORD]
        required = [p.name for p in positional if p.default is p.empty]
        s0 = snap(o)
        if unk:
            bad = pick(UNADVERTISED + ["_index" if "_index" not in kwonly else "_idx", "_by_index" if "_by_index" not in kwonly else "_byindex"], un)
            if bad in sig.parameters:
                assume(False)
            try:
                m(*[0 for _ in required], **{bad: 1})
                exc = None
            except (Violation, Skip):
                raise
            except Exception as ex:
                exc = ex
            check(isinstance(exc, TypeError), "any keyword outside the signature raises TypeError", f"{tag}/unadvertised-accepted", lambda: f"{bad!r}: {exc!r}")
            check(same(snap(o), s0), "... before anything is changed", f"{tag}/changed-before-TypeError")
            return "rejected"
        # the documented flags are accepted: _if=False makes any call a no-op returning the receiver
        try:
            r = m(*[0 for _ in required], _if=False)
        except (Violation, Skip):
            raise
        except Exception as ex:
            check(False, "every advertised keyword is accepted (_if)", f"{tag}/_if-rejected-{type(ex).__name__}", lambda: repr(ex))
        check(r is o and same(snap(o), s0), "_if=False is a no-op returning the receiver", f"{tag}/_if-false-not-noop")
        return "accepted"

    h.__name__ = f"all_methods_{tmpl}"
    return h


_base_obligations = obligations


def obligations(tier):  # noqa: F811
    obs = _base_obligations(tier)
    for tmpl, n in (("K1", 31), ("K2", 63), ("K4", 39)):
        obs.append(Ob(f"C17.all-methods.{tmpl}", make_all_methods(tmpl), [(mi, un, unk, 3) for mi in range(0, n, 3) for un in (0, 4, 8) for unk in (False, True)], f"every generated helper of template {tmpl} (symbolic index over the sorted method names): advertised keyword-only parameters equal the documented set; one unadvertised name from a pool of 9 (symbolic) raises TypeError with the receiver unchanged; _if=False accepted and a no-op", expect={"accepted", "rejected"}, timeout=300 if tier == "quick" else 900))
    return obs
