"""C08 — instances share no mutable state with defaults, constructor arguments or peers.

Bounded histories (not inductive: identity relations between instances are the state): an instance o (constructed with
or without a caller-supplied mutable argument), one peer, then 2 (quick) / 3 (thorough) operations with symbolic
selectors from {construct another instance, in-place mutation of a nested value, reset_<a>(_inplace), reset(_inplace),
del o.a, reset_<a>() copy form}. Around every operation: class-level defaults (class __dict__ along the MRO), the
constructor argument object and every other live instance are unchanged. After reset / del the attribute equals what a
newly constructed instance holds, is a fresh object, or is missing when there is no default."""
import dataclasses
from typing import Dict, List, Set

from spec_classes import Attr, spec_class

from vf.sym import Ob, Skip, Violation, assume, check, pick

ND = object()


def make(bootstrap):
    kw = dict(bootstrap=bootstrap)

    @spec_class(**kw)
    class In:
        a: int = 0
        tags: List[str] = []

    @spec_class(**kw)
    class D:  # one attribute per way of declaring a default
        nd0: List[int]  # no default, declared FIRST (an unset attribute must not stop reset() from restoring the others)
        lit: List[int] = [1]  # mutable literal
        ad: List[int] = Attr(default=[2])  # Attr(default=)
        af: List[int] = Attr(default_factory=lambda: [3])  # Attr(default_factory=)
        df: Dict[str, int] = dataclasses.field(default_factory=lambda: {"k": 4})  # dataclasses.field
        st: Set[int] = dataclasses.field(default_factory=lambda: {5})
        inn: In = Attr(default_factory=In)  # nested spec value
        nd: List[int]  # no default

    @spec_class(**kw)
    class SD(D):  # override in a spec subclass
        lit = [10]
        af: List[int] = Attr(default_factory=lambda: [30])

    class PD(D):  # override in a plain subclass
        lit = [100]
        af = [300]
        ad = [200]
        nd = [400]  # the spec class declares NO default for nd

    return {"D": D, "SD": SD, "PD": PD, "In": In}


FAM = {"eager": make(True), "lazy": make(False)}
FRESH = {
    "D": lambda: {"nd0": ND, "lit": [1], "ad": [2], "af": [3], "df": {"k": 4}, "st": {5}, "nd": ND},
    "SD": lambda: {"nd0": ND, "lit": [10], "ad": [2], "af": [30], "df": {"k": 4}, "st": {5}, "nd": ND},
    "PD": lambda: {"nd0": ND, "lit": [100], "ad": [200], "af": [300], "df": {"k": 4}, "st": {5}, "nd": [400]},
}
ATTRS = ["nd0", "lit", "ad", "af", "df", "st", "nd"]


def class_defaults(cls):
    """(owner, name, object, copy of content) for every default object sitting in a class __dict__ along the MRO"""
    out = []
    for k in cls.__mro__:
        for n in ATTRS + ["inn"]:
            if n in k.__dict__:
                v = k.__dict__[n]
                if isinstance(v, (list, dict, set)):
                    out.append((k.__name__, n, v, repr(v)))
    return out


def content(o):
    d = {}
    for n in ATTRS:
        v = getattr(o, n, ND)
        if isinstance(v, list):
            d[n] = [x for x in v]
        elif isinstance(v, dict):
            d[n] = {k: x for k, x in v.items()}
        elif isinstance(v, set):
            d[n] = {x for x in v}
        else:
            d[n] = v if not (isinstance(v, type) and v.__name__ == "MISSING") else "<MISSING sentinel>"
    inn = getattr(o, "inn", ND)
    d["inn"] = (inn.a, [t for t in inn.tags]) if inn is not ND else ND
    return d


def mutate(o, a, v):
    x = getattr(o, a)
    if isinstance(x, list):
        x.append(v)
    elif isinstance(x, dict):
        x["zz"] = v
    else:
        x.add(77)


def make_h(fam, cname, nops, fop=None, fop2=None):
    cls = FAM[fam][cname]

    def h(arg: bool, aa: int, v: int, op1: int, a1: int, op2: int, a2: int, op3: int, a3: int) -> str:
        argobj = None
        tag0 = f"C08/{cname}"
        if arg:
            an = pick(["lit", "af", "nd"], aa)
            argobj = [v, 8]
            o = cls(**{an: argobj})
            check(getattr(o, an) is not argobj, "the constructor copies supplied values", f"{tag0}/ctor-arg-shared")
        else:
            o = cls()
        peer = cls()
        live = [peer]
        defaults = class_defaults(cls)
        if fop is not None:
            assume(op1 == fop)
        if fop2 is not None:
            assume(op2 == fop2)
        for op, ai in [(op1, a1), (op2, a2), (op3, a3)][:nops]:
            assume(0 <= op <= 6)
            a = pick(ATTRS[1:], ai)  # nd0 stays unset throughout
            name = ["construct", "mutate", "reset_attr", "reset", "del", "reset_attr_copy", "mutate_inner"][op]
            tag = f"{tag0}/{name}"
            pre_live = [content(x) for x in live]
            pre_arg = [x for x in argobj] if argobj is not None else None
            target = o
            try:
                if op == 0:
                    live.append(cls())
                    pre_live.append(content(live[-1]))
                elif op == 1:
                    if getattr(o, a, ND) is ND:
                        continue
                    mutate(o, a, v)
                elif op == 2:
                    getattr(o, f"reset_{a}")(_inplace=True)
                elif op == 3:
                    o.reset(_inplace=True)
                elif op == 4:
                    if getattr(o, a, ND) is ND:
                        continue
                    delattr(o, a)
                elif op == 5:
                    if a == "nd" and getattr(o, a, ND) is ND:
                        continue
                    target = getattr(o, f"reset_{a}")()
                else:
                    o.inn.a = v
                    o.inn.tags.append("t")
            except (Violation, Skip):
                raise
            except AttributeError as ex:
                if a == "nd" and op in (2,) and cname != "PD":
                    continue  # resetting an attribute that has neither value nor default: not claimed
                check(False, "operation must not raise", f"{tag}/unexpected-AttributeError", lambda: repr(ex))
            # (a) class-level defaults, constructor argument, every other live instance unchanged
            for owner, n, obj, rep in defaults:
                check(repr(obj) == rep, "mutating one instance in place changes no class-level default", f"{tag}/class-default-changed-{owner}.{n}", lambda: f"{owner}.{n}: {rep} -> {obj!r}")
            if argobj is not None:
                check(argobj == pre_arg, "... nor the object that was passed to its constructor", f"{tag}/ctor-arg-changed", lambda: f"{pre_arg!r} -> {argobj!r}")
            for x, pc in zip(live, pre_live):
                check(content(x) == pc, "... nor any other instance", f"{tag}/peer-changed", lambda: f"{pc!r} -> {content(x)!r}")
            # (b) reset / del yield a fresh value equal to what a newly constructed instance holds
            if op in (2, 3, 4, 5):
                fresh = FRESH[cname]()
                for n in ATTRS[1:] if op == 3 else [a]:
                    got = getattr(target, n, ND)
                    want = fresh[n]
                    if want is ND:
                        check(got is ND, "leaves it missing when there is no default", f"{tag}/should-be-missing-{n}", lambda: f"{got!r}")
                        continue
                    check(got is not ND and got == want, "resetting or deleting an attribute yields a value equal to what a newly constructed instance would hold", f"{tag}/not-default-{n}", lambda: f"{n}: {got!r} vs {want!r}")
                    for owner, n2, obj, rep in defaults:
                        check(got is not obj, "... a FRESH value (not the class-level default object)", f"{tag}/default-object-handed-out-{n}")
                    for x in live:
                        check(getattr(x, n, ND) is not got, "... not shared with another instance", f"{tag}/shared-with-peer-{n}")
                    if op == 5:
                        check(getattr(o, n, ND) is not got, "... not shared with the receiver", f"{tag}/shared-with-receiver-{n}")
        return "ok"

    h.__name__ = f"iso_{fam}_{cname}_{nops}"
    return h


def make_ctor_copy(fam):
    bootstrap = fam == "eager"

    @spec_class(do_not_copy=["big"], bootstrap=bootstrap)
    class DN:
        big: List[int] = Attr(default_factory=list)
        tags: List[int] = []
        opts: Dict[str, int] = {}
        inn: FAM[fam]["In"] = Attr(default_factory=FAM[fam]["In"])

    def h(pb: bool, pt: bool, po: bool, pi: bool, v: int, mut: int) -> str:
        kw, args = {}, {}
        if pb:
            args["big"] = kw["big"] = [v]
        if pt:
            args["tags"] = kw["tags"] = [v, 2]
        if po:
            args["opts"] = kw["opts"] = {"k": v}
        if pi:
            args["inn"] = kw["inn"] = FAM[fam]["In"](a=v, tags=["t"])
        o = DN(**kw)
        if pb:
            check(o.big is args["big"], "do_not_copy attributes are carried by identity", "C08/ctor/do-not-copy-copied")
        for n in ("tags", "opts", "inn"):
            if n in args:
                check(getattr(o, n) is not args[n], "the constructor stores a copy of every supplied mutable value (do_not_copy attributes excepted)", f"C08/ctor/arg-stored-by-identity-{n}", lambda: f"given {sorted(args)}")
        before = {"tags": [x for x in args.get("tags", [])], "opts": {k: x for k, x in args.get("opts", {}).items()}, "inn": (args["inn"].a, [t for t in args["inn"].tags]) if "inn" in args else None}
        m = pick(["tags.append", "opts[zz]", "inn.a", "inn.tags.append"], mut)
        if m == "tags.append":
            o.tags.append(99)
        elif m == "opts[zz]":
            o.opts["zz"] = 1
        elif m == "inn.a":
            o.inn.a = 99
        else:
            o.inn.tags.append("zz")
        after = {"tags": [x for x in args.get("tags", [])], "opts": {k: x for k, x in args.get("opts", {}).items()}, "inn": (args["inn"].a, [t for t in args["inn"].tags]) if "inn" in args else None}
        check(before == after, "mutating one instance in place, at any nesting depth, changes neither ... the object that was passed to its constructor", f"C08/ctor/arg-changed/{m}", lambda: f"given {sorted(args)}: {before!r} -> {after!r}")
        return "ok"

    h.__name__ = f"ctor_copy_{fam}"
    return h


def _warm(nops):
    out = []
    for arg in (False, True):
        for op1 in range(7):
            for op2 in (1, 2, 3, 4, 5):
                for a in range(6):
                    out.append((arg, a % 3, 9, op1, a, op2, (a + 2) % 6, 3, 0))
    return out


def obligations(tier):
    obs = []
    nops = 2
    T = 300 if tier == "quick" else 1800
    if tier == "thorough":
        # histories of 3 operations, sharded by the kinds of the first TWO operations (one shard per first-operation kind
        # ran past 30 minutes; 98 two-operation shards for D and PD past 75 minutes on 10 cores); class D, eager family
        for cname, fop, fop2 in [(c, f, g) for c in ("D",) for f in range(7) for g in range(7)]:
            obs.append(Ob(f"C08.eager.{cname}.h3.first-op{fop}.second-op{fop2}", make_h("eager", cname, 3, fop, fop2), [w for w in _warm(3) if w[3] == fop and w[5] == fop2] or [w for w in _warm(3) if w[3] == fop][:6], f"class {cname} (eager): history of 3 operations (kinds of the first two fixed per shard: {fop}, {fop2}; their attributes and the third operation symbolic) over 7 operation kinds x 6 attributes; constructor argument given or not (symbolic)", expect=set(), timeout=T, group=f"C08.eager.{cname}.h3"))
    for fam in ("eager",) if tier == "quick" else ("eager", "lazy"):
        for cname, fop in [(c, f) for c in ("D", "SD", "PD") for f in range(7)]:
            obs.append(Ob(f"C08.{fam}.{cname}.h{nops}.first-op{fop}", make_h(fam, cname, nops, fop), [w for w in _warm(nops) if w[3] == fop], f"class {cname} ({fam}): attributes declared with a mutable literal, Attr(default=), Attr(default_factory=), dataclasses.field(default_factory=) (dict and set), nested spec default, no default{'; overrides in a spec subclass' if cname == 'SD' else ''}{'; overrides in a plain subclass' if cname == 'PD' else ''}; constructor argument given or not (symbolic), history of {nops} operations (first operation kind fixed per shard: {fop}) with symbolic selectors over 7 operation kinds x 6 attributes", expect={"ok"}, timeout=T))
        obs.append(Ob(f"C08.{fam}.ctor-copy", make_ctor_copy(fam), [(a, b, c, d, 5, m) for a in (False, True) for b in (False, True) for c in (False, True) for d in (False, True) for m in range(4)], "class with a do_not_copy attribute declared BEFORE mutable attributes: every subset of {big, tags, opts, inn} passed to the constructor (symbolic bits), then one in-place mutation (symbolic) of the instance: arguments other than the do_not_copy one are neither stored by identity nor changed", expect={"ok"}, timeout=T))
    return obs
