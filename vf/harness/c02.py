"""C02 — derived copies share no mutable state with the original (do_not_copy excepted).

Result r of a copy-on-write helper or of deepcopy on a template instance o built from symbolic leaves:
 (a) ids of mutable nodes reachable from r and from o intersect only in objects handed in as arguments and in
     do_not_copy attribute values; (c) do_not_copy attributes are carried by identity;
 (b) one follow-up IN-PLACE mutation (symbolic selector, at nesting depth 1 or 2) of r or of o (symbolic side) is not
     visible through the other side."""
import copy
from typing import List

from vf.grammar import FAMILIES
from vf.snapshot import describe, mutable_ids, same, snap
from vf.specops import K2_OPS, K3_OPS, K5_OPS, build_k2, build_k3, build_k5, k2_ops, k3_ops, k5_ops
from vf.sym import Ob, Violation, assume, check, pick

MUT = {
    "K2": [
        ("nums.append", lambda x: x.nums.append(99)),
        ("opts[zz]=", lambda x: x.opts.__setitem__("zz", 1)),
        ("tags.append", lambda x: x.tags.append("zz")),
        ("vals.add", lambda x: x.vals.add(77)),
        ("y=", lambda x: setattr(x, "y", 12345)),
    ],
    "K3": [
        ("inner.a=", lambda x: setattr(x.inner, "a", 99)),
        ("inner.tags.append", lambda x: x.inner.tags.append("zz")),
        ("inner2.a=", lambda x: setattr(x.inner2, "a", 98)),
        ("inner2.tags.append", lambda x: x.inner2.tags.append("zz")),
        ("kids.append", lambda x: x.kids.append(x.kids[0].__class__(a=5))),
        ("kids[0].a=", lambda x: setattr(x.kids[0], "a", 97)),
        ("kids[0].tags.append", lambda x: x.kids[0].tags.append("zz")),
        ("by_name[zz]=", lambda x: x.by_name.__setitem__("zz", x.kids[0].__class__(a=1))),
    ],
    "K5": [
        ("scores.append", lambda x: x.scores.append(5)),
        ("x=", lambda x: setattr(x, "x", 4321)),
    ],
}


def _unchanged():
    from spec_classes.types.missing import UNCHANGED

    return UNCHANGED


# degenerate call forms that re-assign the stored nested value (nothing handed in by the caller)
NOARG_OPS = {
    "update_noargs": lambda attr: (lambda o: getattr(o, f"update_{attr}")()),
    "transform_noargs": lambda attr: (lambda o: getattr(o, f"transform_{attr}")()),
    "update_unchanged": lambda attr: (lambda o: getattr(o, f"update_{attr}")(_unchanged())),
    "transform_identity": lambda attr: (lambda o: getattr(o, f"transform_{attr}")(lambda v: v)),
    "update_top_identity": lambda attr: (lambda o: o.transform(**{attr: lambda v: v})),
}


def make(fam, tmpl, opname, attr=None, second=False):
    NS = FAMILIES[fam]

    def h(n: int, e: List[int], x0: int, n0: int, i0: int, xset: bool, i: int, i1: int, i2: int, s1: str, b1: bool, sel3: int, fk: int, k: int, mut: int, side: bool, mut2: int) -> str:
        if not second:
            assume(mut2 == -1)
        P = dict(n=n, e=e, x0=x0, n0=n0, i0=i0, i=i, i1=i1, i2=i2, s1=s1, b1=b1, sel3=sel3, fk=fk, bad=0, k=k, keyok=True, inner_set=bool(xset))
        if tmpl == "K2":
            assume(len(e) == 2)
            o = build_k2(NS, P)
            op = None if opname == "deepcopy" else k2_ops(opname, P, False, True)
        elif tmpl == "K3" and opname in NOARG_OPS:
            from vf.specops import Op

            o = build_k3(NS, P, True)
            op = Op(f"{opname} on {attr}", NOARG_OPS[opname](attr), [], None, None, False, False)
        elif tmpl == "K3":
            o = build_k3(NS, P, True)
            op = None if opname == "deepcopy" else k3_ops(NS, opname, attr, P, False)
        else:
            o = build_k5(NS, P)
            o.big.append(1)
            op = None if opname == "deepcopy" else k5_ops(NS, opname, P, False)
        tag = f"C02/{tmpl}/{opname}" + (f".{attr}" if attr else "")
        if op is not None and opname in ("transform_num", "transform_opt"):
            assume(fk == 0)  # transforms that return new objects
        if op is not None and opname in ("with_nums", "with_opts", "with_tags"):
            assume(fk == 0)
        try:
            r = copy.deepcopy(o) if op is None else op.call(o)
        except Violation:
            raise
        except Exception:
            return "raised"  # failed operations are C04's subject
        check(r is not o, "a copy-on-write helper / deepcopy returns a distinct instance", f"{tag}/same-instance")
        ids_o, ids_r = mutable_ids(o), mutable_ids(r)
        allowed = {}
        for a in (op.args if op is not None else []):
            mutable_ids(a, allowed)
        if tmpl == "K5" and opname != "with_big_item":  # (an element helper on the attribute itself necessarily builds a new list)
            check(r.big is o.big, "do_not_copy attributes are carried into every copy by identity and never duplicated", f"{tag}/do-not-copy-duplicated")
            allowed[id(o.big)] = o.big
        elif tmpl == "K5":
            check(r.big is not o.big, "an element helper without _inplace edits a copy of the collection", f"{tag}/receiver-collection-edited")
        shared = [v for k_, v in ids_r.items() if k_ in ids_o and k_ not in allowed]
        check(not shared, "the result shares no mutable object with the instance it was derived from (arguments and do_not_copy attributes excepted)", f"{tag}/shared-mutable", lambda: f"{op.name if op else 'deepcopy'}: shared {[type(s).__name__ for s in shared]} {shared!r}")
        # follow-up in-place mutation of one side is invisible through the other
        muts = MUT[tmpl]
        name, fn = pick(muts, mut)
        a_side, b_side = (r, o) if side else (o, r)
        s_b = snap(b_side)
        try:
            fn(a_side)
        except (AttributeError, IndexError, KeyError):
            return "no-followup"  # nothing to mutate there (e.g. unset nested value)
        check(same(snap(b_side), s_b, ids=False), "no later in-place change to either instance (at any nesting depth) is visible through the other", f"{tag}/followup-visible/{name}", lambda: f"after {name} on the {'result' if side else 'receiver'}: other side {describe(s_b)} -> {describe(snap(b_side))}")
        if second:
            # a second in-place change, now on the OTHER instance, must be invisible through the first one
            name2, fn2 = pick(muts, mut2)
            s_a = snap(a_side)
            try:
                fn2(b_side)
            except (AttributeError, IndexError, KeyError):
                return "ok"
            check(same(snap(a_side), s_a, ids=False), "no later in-place change to either instance (at any nesting depth) is visible through the other", f"{tag}/second-followup-visible/{name}+{name2}", lambda: f"after {name} on the {'result' if side else 'receiver'} and then {name2} on the other: {describe(s_a)} -> {describe(snap(a_side))}")
        return "ok"

    h.__name__ = f"C02_{tmpl}_{opname}_{attr}"
    return h


def make_inherit(fam, kind):
    from typing import List as _L

    from spec_classes import spec_class

    bootstrap = fam == "eager"

    @spec_class(bootstrap=bootstrap)
    class Base:
        x: int = 1
        ys: _L[int] = [1, 2]
        payload: _L[int] = []

    class PlainSub(Base):
        ys = [7, 8]

    @spec_class(do_not_copy=["payload"], bootstrap=bootstrap)
    class Derived(Base):  # do_not_copy declared in the subclass for an INHERITED, not re-annotated attribute
        tag: str = "t"

    from spec_classes import Attr

    @spec_class(bootstrap=bootstrap)
    class AttrDeclared:  # do_not_copy declared on the attribute itself
        x: int = 1
        ys: _L[int] = [1, 2]
        payload: _L[int] = Attr(default_factory=list, do_not_copy=True)

    @spec_class(do_not_copy=["payload"], bootstrap=bootstrap)
    class DncParent:
        x: int = 1
        ys: _L[int] = [1, 2]
        payload: _L[int] = []

    @spec_class(bootstrap=bootstrap)
    class Redecorated(DncParent):  # does not mention do_not_copy: the parent's declaration is inherited
        tag: str = "t"

    @spec_class(bootstrap=bootstrap)
    class RedecoratedAttr(AttrDeclared):
        tag: str = "t"

    @spec_class(bootstrap=bootstrap)
    class Kid:
        vals: _L[int] = []

    @spec_class(bootstrap=bootstrap)
    class BaseN:
        x: int = 1
        ys: _L[int] = [1, 2]
        payload: _L[int] = []
        kid: Kid = Kid()

    class PlainNested(BaseN):  # plain subclass overriding a default that is a nested spec INSTANCE (not a collection)
        kid = Kid(vals=[7])

    @spec_class(bootstrap=bootstrap)
    class SpecNested(BaseN):  # the same through a re-decorated subclass (no re-annotation)
        kid = Kid(vals=[8])
        tag: str = "t"

    from vf.snapshot import register

    register(Kid, ["vals"])
    register(BaseN, ["x", "ys", "payload", "kid"])
    register(SpecNested, ["x", "ys", "payload", "kid", "tag"])
    register(Base, ["x", "ys", "payload"])
    register(Derived, ["x", "ys", "payload", "tag"])
    register(AttrDeclared, ["x", "ys", "payload"])
    register(DncParent, ["x", "ys", "payload"])
    register(Redecorated, ["x", "ys", "payload", "tag"])
    register(RedecoratedAttr, ["x", "ys", "payload", "tag"])
    CLS = {"plain-override-nested": PlainNested, "spec-override-nested": SpecNested, "plain-override": PlainSub, "dnc-inherited": Derived, "dnc-attr-declared": AttrDeclared, "dnc-redecorated": Redecorated, "dnc-attr-redecorated": RedecoratedAttr}

    def h(v: int, pre: int, op: int, side: bool, mut: int) -> str:
        cls = CLS[kind]
        if kind.endswith("-nested"):
            # class-level state outlives a path of the exploration: put the declared default back (in place, it is the
            # object the class and its Attr hold) so that a path only ever reports damage it did itself
            cls.__dict__["kid"].__dict__["vals"] = [7] if kind == "plain-override-nested" else [8]
        o = cls(x=v)
        if kind.startswith("dnc-"):
            o.payload.append(v)
        prename = pick(["none", "reset_ys_inplace", "reset_inplace", "del_ys"], pre)
        if prename == "reset_ys_inplace":
            o.reset_ys(_inplace=True)
        elif prename == "reset_inplace":
            o.reset(_inplace=True)
        elif prename == "del_ys":
            del o.ys
        opname = pick(["reset_ys", "reset", "with_x", "deepcopy", "update_x", "with_ys", "reset_kid"], op)
        nested = kind.endswith("-nested")
        if opname == "reset_kid":
            assume(nested)
        tag = f"C02/inherit-{kind}/{opname}"
        if opname == "reset_ys":
            r = o.reset_ys()
        elif opname == "reset":
            r = o.reset()
        elif opname == "with_x":
            r = o.with_x(v + 1)
        elif opname == "update_x":
            r = o.update(x=v + 1)
        elif opname == "with_ys":
            r = o.with_ys([5, v])
        elif opname == "reset_kid":
            r = o.reset_kid()
        else:
            r = copy.deepcopy(o)
        check(r is not o, "distinct instance", f"{tag}/same-instance")
        ids_o, ids_r = mutable_ids(o), mutable_ids(r)
        allowed = {}
        if kind.startswith("dnc-") and opname not in ("reset",):
            check(r.payload is o.payload, "attributes declared do_not_copy are carried into every copy by identity and are never duplicated", f"{tag}/do-not-copy-duplicated", lambda: f"pre={prename}")
            allowed[id(o.payload)] = o.payload
        shared = [x for k_, x in ids_r.items() if k_ in ids_o and k_ not in allowed]
        check(not shared, "the result shares no mutable object with the instance it was derived from", f"{tag}/shared-mutable", lambda: f"pre={prename}: shared {shared!r}")
        a_side, b_side = (r, o) if side else (o, r)
        s_b = snap(b_side)
        name, fn = pick([("ys.append", lambda x: x.ys.append(99)), ("x=", lambda x: setattr(x, "x", 777)), ("kid.vals.append", lambda x: x.kid.vals.append(55))], mut)
        if name == "kid.vals.append":
            assume(nested)
        fn(a_side)
        if nested:
            fresh = cls()
            check(fresh.kid.vals == ([7] if kind == "plain-override-nested" else [8]), "(C08 overlap) the class-level default is not reachable from a derived copy", f"{tag}/class-default-changed/{name}", lambda: f"pre={prename}: a new instance now has kid.vals == {fresh.kid.vals!r}")
        check(same(snap(b_side), s_b, ids=False), "no later in-place change to either instance is visible through the other", f"{tag}/followup-visible/{name}", lambda: f"pre={prename}")
        return "ok"

    h.__name__ = f"C02_inherit_{fam}_{kind}"
    return h


def _warm():
    out = []
    for n in (1, 2):
        for mut in range(8):
            for side in (False, True):
                out.append((n, [1, 2], 3, 4, 5, True, 0, 6, 7, "t", True, 0, 0, 0, mut, side, -1))
    return out


def _warm2():
    return [w[:-1] + (m2,) for w in _warm() for m2 in (0, 3)]


def obligations(tier):
    obs = []
    T = 240 if tier == "quick" else 900
    fams = ("eager",) if tier == "quick" else ("eager", "lazy")
    two = tier == "thorough"  # thorough: a second follow-up mutation on the other instance
    W = _warm2() if two else _warm()
    for fam in fams:
        for opname in ["deepcopy"] + [x for x in K2_OPS if not x.startswith("setattr")]:
            obs.append(Ob(f"C02.{fam}.K2.{opname}", make(fam, "K2", opname, second=two), W, ("[two follow-up mutations, one per side] " if two else "") + f"K2 ({fam}): result of {opname} with freshly built conforming arguments; container length <= 2; follow-up mutation one of {[m[0] for m in MUT['K2']]} on result or receiver (symbolic)", expect=set(), timeout=T))
        for opname in ["deepcopy"] + [x for x in K3_OPS if not x.startswith("setattr")]:
            for attr in ("inner", "inner2"):
                if opname == "deepcopy" and attr == "inner2":
                    continue
                obs.append(Ob(f"C02.{fam}.K3.{opname}.{attr}", make(fam, "K3", opname, attr, second=two), W, ("[two follow-up mutations, one per side] " if two else "") + f"K3 ({fam}) nested values: result of {opname} on {attr}; follow-up mutation one of {[m[0] for m in MUT['K3']]} on result or receiver", expect=set(), timeout=T))
        for opname in NOARG_OPS:
            for attr in ("inner", "inner2"):
                obs.append(Ob(f"C02.{fam}.K3.{opname}.{attr}", make(fam, "K3", opname, attr, second=two), W, ("[two follow-up mutations, one per side] " if two else "") + f"K3 ({fam}) nested values: degenerate call form {opname} on {attr} (re-assigns the stored value; nothing is handed in); follow-up mutation on result or receiver", expect=set(), timeout=T))
        KINDS = {"plain-override-nested": "plain subclass overriding a default that is a nested spec instance", "spec-override-nested": "re-decorated subclass overriding a default that is a nested spec instance", "plain-override": "plain subclass overriding a mutable default", "dnc-inherited": "spec subclass declaring do_not_copy for an inherited attribute", "dnc-attr-declared": "attribute declared Attr(do_not_copy=True)", "dnc-redecorated": "re-decorated subclass (no do_not_copy argument) of a class declaring do_not_copy=[attr]", "dnc-attr-redecorated": "re-decorated subclass of a class with an Attr(do_not_copy=True) attribute"}
        for kind in KINDS:
            obs.append(Ob(f"C02.{fam}.inherit.{kind}", make_inherit(fam, kind), [(3, pre, op, sd, m) for pre in range(4) for op in range(7) for sd in (False, True) for m in (0, 1, 2)], f"{KINDS[kind]} ({fam}); one preparatory in-place reset/del (symbolic, or none), then reset_ys / reset / with_x / deepcopy / update / with_ys, then a follow-up mutation on either side", expect={"ok"}, timeout=T))
        for opname in ["deepcopy"] + [x for x in K5_OPS if not x.startswith("setattr")]:
            obs.append(Ob(f"C02.{fam}.K5.{opname}", make(fam, "K5", opname, second=two), W, ("two follow-up mutations (one per side); " if two else "") + "K5 with a do_not_copy attribute `big`: carried by identity, everything else unshared", expect=set(), timeout=T))
    return obs
