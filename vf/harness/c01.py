"""C01 — copy-on-write helpers never change the instance they are called on (nor their arguments).

One helper call WITHOUT _inplace on a template instance built from symbolic leaves; arguments conforming and
non-conforming, callbacks that raise or return ill-typed values, missing indices/keys, unknown keywords; deep identity +
content snapshots of receiver and arguments before/after, whether the call returns or raises."""
from vf.specops import K2_OPS, K2_SET_OPS, K3_FAIL_OPS, K3_OPS, K4_PREP_OPS, K4_OPS, K5_OPS
from vf.stepcheck import K1_MATRIX, make, warm
from vf.sym import Ob

PROP = "C01"


def matrix(tier):
    out = []
    for opname, attr in K1_MATRIX:
        if opname in ("setattr", "delattr"):
            continue
        for conform in (True, False):
            if not conform and opname not in ("with", "update2"):
                continue
            out.append(("K1", opname, attr, conform))
    for opname in K2_OPS:
        if opname.startswith("setattr"):
            continue
        for conform in (True, False):
            if not conform and opname in ("transform_num", "without_num", "reset_nums", "transform_opt", "without_opt", "with_nums", "with_opts", "with_tags"):
                continue
            out.append(("K2", opname, None, conform))
    for opname in K2_SET_OPS:
        out.append(("K2S", opname, None, True))
        if opname in ("with_val", "update_val"):
            out.append(("K2S", opname, None, False))
    for opname in K3_OPS:
        if opname.startswith("setattr"):
            continue
        for attr in ("inner", "inner2"):
            out.append(("K3", opname, attr, True))
    for opname in K3_FAIL_OPS:
        for attr in ("inner", "inner2"):
            out.append(("K3", opname, attr, True))
    for opname in K4_PREP_OPS:
        if PROP == "C01" and (opname.startswith("setattr") or opname.startswith("del")):
            continue
        out.append(("K4", opname, None, True))
    for opname in K4_OPS:
        if PROP == "C01" and opname.startswith("setattr"):
            continue
        for conform in (True, False):
            out.append(("K4", opname, None, conform))
    for opname in K5_OPS:
        if not opname.startswith("setattr"):
            out.append(("K5", opname, None, True))
    return out


def obligations(tier):
    obs = []
    T = 200 if tier == "quick" else 900
    fams = ("eager",) if tier == "quick" else ("eager", "lazy")
    for fam in fams:
        for tmpl, opname, attr, conform in matrix(tier):
            if fam == "lazy" and tmpl not in ("K2", "K3"):
                continue
            obs.append(
                Ob(
                    f"{PROP}.{fam}.{tmpl}.{opname}{'.' + attr if attr else ''}.{'conf' if conform else 'illtyped'}",
                    make(PROP, fam, tmpl, opname, attr, conform),
                    warm(tmpl),
                    f"template {tmpl} ({fam}); helper {opname}{' on ' + attr if attr else ''} without _inplace; {'conforming' if conform else 'NON-conforming'} symbolic argument values; container length <= 2; indices in [-3,3]; callbacks from {{+c, raises, returns ill-typed}}",
                    expect=set(),
                    timeout=T,
                )
            )
    return obs
