"""C04 — an operation that raises leaves every pre-existing object unchanged.

One helper call, assignment or deletion (copy-on-write AND _inplace=True, symbolic) on a template instance built from symbolic leaves; arguments conforming and
non-conforming, callbacks that raise or return ill-typed values, missing indices/keys, unknown keywords; deep identity +
content snapshots of receiver, arguments and a bystander instance, compared on every path where the call raised."""
from vf.specops import K2_OPS, K2_SET_OPS, K3_FAIL_OPS, K3_OPS, K4_PREP_OPS, K4_DUP_OPS, K4_OPS, K5_FAIL_OPS, K5_OPS
from vf.stepcheck import K1_MATRIX, make, warm
from vf.sym import Ob

PROP = "C04"


def matrix(tier):
    out = []
    for opname, attr in K1_MATRIX:
        for conform in (True, False):
            if not conform and opname not in ("with", "update2"):
                continue
            out.append(("K1", opname, attr, conform))
    for opname in K2_OPS:
        for conform in (True, False):
            if not conform and opname in ("transform_num", "without_num", "reset_nums", "transform_opt", "without_opt", "with_nums", "with_opts", "with_tags"):
                continue
            out.append(("K2", opname, None, conform))
    for opname in K2_SET_OPS:
        out.append(("K2S", opname, None, True))
        if opname in ("with_val", "update_val"):
            out.append(("K2S", opname, None, False))
    for opname in K3_OPS:
        for attr in ("inner", "inner2"):
            out.append(("K3", opname, attr, True))
    for opname in K3_FAIL_OPS:
        for attr in ("inner", "inner2"):
            out.append(("K3", opname, attr, True))
    for opname in K4_PREP_OPS:
        if PROP == "C01" and (opname.startswith("setattr") or opname.startswith("del")):
            continue
        out.append(("K4", opname, None, True))
    for opname in K4_OPS:
        if PROP == "C01" and opname.startswith("setattr"):
            continue
        for conform in (True, False):
            out.append(("K4", opname, None, conform))
    for opname in K4_DUP_OPS:
        out.append(("K4", opname, None, True))
    for opname in K5_FAIL_OPS:
        out.append(("K5", opname, None, True))
    for opname in K5_OPS:
        out.append(("K5", opname, None, True))
    return out


def obligations(tier):
    obs = []
    T = 200 if tier == "quick" else 900
    fams = ("eager",) if tier == "quick" else ("eager", "lazy")
    for fam in fams:
        for tmpl, opname, attr, conform in matrix(tier):
            if fam == "lazy" and tmpl not in ("K2", "K3"):
                continue
            obs.append(
                Ob(
                    f"{PROP}.{fam}.{tmpl}.{opname}{'.' + attr if attr else ''}.{'conf' if conform else 'illtyped'}",
                    make(PROP, fam, tmpl, opname, attr, conform),
                    warm(tmpl),
                    f"template {tmpl} ({fam}); helper {opname}{' on ' + attr if attr else ''} _inplace symbolic; {'conforming' if conform else 'NON-conforming'} symbolic argument values; container length <= 2; indices in [-3,3]; callbacks from {{+c, raises, returns ill-typed}}",
                    expect=set(),
                    timeout=T,
                )
            )
    return obs


# ---------------------------------------------------------------------------------------------------------------------
# user callbacks failing at their i-th invocation: preparer, item preparer, validator, key function, __post_copy__


def _cb_classes(fam):
    from typing import Any as _Any
    from typing import List as _List

    from spec_classes import spec_class
    from spec_classes.types import KeyedList, validated

    from vf.specops import CallbackFail

    ST = {"who": None, "n": 0, "at": -1}

    def tick(who):
        if ST["who"] == who:
            ST["n"] += 1
            if ST["n"] == ST["at"]:
                raise CallbackFail(who)

    def _valid(v):
        tick("validator")
        return isinstance(v, int)

    Even = validated(_valid, name="intish")

    def keyfn(it):
        tick("keyfn")
        return it[0]

    @spec_class(bootstrap=(fam == "eager"))
    class CB:
        pw: int = 0
        scores: _List[int] = []
        ev: Even = 0
        kl: _Any = None
        y: int = 0

        def _prepare_pw(self, v):
            tick("preparer")
            return len(v) if isinstance(v, str) else v

        def _prepare_score(self, v):
            tick("item_preparer")
            return len(v) if isinstance(v, str) else v

        def __post_copy__(self):
            tick("post_copy")

    from vf.snapshot import register

    register(CB, ["pw", "scores", "ev", "kl", "y"])
    return CB, ST, keyfn, KeyedList


_CB = {}


def make_callback(fam, who, opname):
    from vf.snapshot import describe, same, snap
    from vf.specops import CallbackFail
    from vf.sym import Skip, Violation, assume, check, pick

    def h(at: int, v: int, s: int, inplace: bool) -> str:
        if fam not in _CB:
            _CB[fam] = _cb_classes(fam)
        CB, ST, keyfn, KeyedList = _CB[fam]
        assume(1 <= at <= 4)
        ST.update(who=None, n=0, at=-1)
        kl = KeyedList([("a", 1), ("b", 2)], key=keyfn)
        o = CB(pw=v, scores=[1, 2], ev=3, y=v)
        o.kl = kl
        by = CB(pw=1, scores=[5])
        strs = pick(["", "ab", "abc"], s)
        arglist = [v, strs, 7]
        kw = {"_inplace": True} if inplace else {}
        ops = {
            "with_pw": lambda: o.with_pw(strs, **kw),
            "setattr_pw": lambda: setattr(o, "pw", strs),
            "with_scores": lambda: o.with_scores(arglist, **kw),
            "with_score": lambda: o.with_score(strs, **kw),
            "update_multi": lambda: o.update(y=v + 1, scores=arglist, pw=strs, **kw),
            "with_ev": lambda: o.with_ev(v, **kw),
            "transform_score": lambda: o.transform_score(0, lambda t: t + 1, _by_index=True, **kw),
            "kl_append": lambda: o.kl.append(("c", v)),
            "kl_setitem": lambda: o.kl.__setitem__(0, ("z", v)),
            "kl_extend": lambda: o.kl.extend([("c", v), ("d", 1)]),
            "kl_delitem": lambda: o.kl.__delitem__(0),
            "kl_delkey": lambda: o.kl.__delitem__("a"),
            "kl_pop": lambda: o.kl.pop(),
            "kl_remove": lambda: o.kl.remove(("a", 1)),
            "kl_insert": lambda: o.kl.insert(0, ("c", v)),
            "kl_setkey": lambda: o.kl.__setitem__("a", ("z", v)),
            "kl_reverse": lambda: o.kl.reverse(),
            "kl_iadd": lambda: o.kl.__iadd__([("c", v)]),
            "with_y": lambda: o.with_y(v + 1, **kw),
            "reset_scores": lambda: o.reset_scores(**kw),
        }
        if opname == "setattr_pw" or opname.startswith("kl_"):
            assume(inplace)
        s_o, s_by, s_arg, s_kl = snap(o), snap(by), snap(arglist), snap(kl)
        ST.update(who=who, n=0, at=at)
        try:
            ops[opname]()
            exc = None
        except (Violation, Skip):
            raise
        except Exception as ex:
            exc = ex
        finally:
            ST.update(who=None, n=0, at=-1)
        tag = f"C04/callback-{who}/{opname}"
        if exc is None:
            return "returned"
        check(isinstance(exc, (CallbackFail, TypeError, ValueError)), "the callback's exception (or a type error) propagates", f"{tag}/other-exception-{type(exc).__name__}", lambda: repr(exc))
        check(same(snap(o), s_o), "an operation that raises leaves the receiver, its nested values and containers exactly as before", f"{tag}/receiver-changed-{'inplace' if inplace else 'copy'}", lambda: f"callback {who} failing at invocation {at}: {describe(s_o)} -> {describe(snap(o))}")
        check(same(snap(kl), s_kl), "... and its keyed container", f"{tag}/keyed-container-changed", lambda: f"{describe(s_kl)} -> {describe(snap(kl))}")
        check(same(snap(arglist), s_arg), "... and the arguments", f"{tag}/argument-changed", lambda: f"{describe(s_arg)} -> {describe(snap(arglist))}")
        check(same(snap(by), s_by), "... and other instances", f"{tag}/bystander-changed")
        return "raised"

    h.__name__ = f"C04_cb_{fam}_{who}_{opname}"
    return h


CALLBACK_MATRIX = [
    ("preparer", "with_pw"), ("preparer", "setattr_pw"), ("preparer", "update_multi"),
    ("item_preparer", "with_scores"), ("item_preparer", "with_score"), ("item_preparer", "update_multi"), ("item_preparer", "transform_score"),
    ("validator", "with_ev"), ("validator", "update_multi"),
    ("keyfn", "kl_append"), ("keyfn", "kl_setitem"), ("keyfn", "kl_extend"),
    ("keyfn", "kl_delitem"), ("keyfn", "kl_delkey"), ("keyfn", "kl_pop"), ("keyfn", "kl_remove"), ("keyfn", "kl_insert"), ("keyfn", "kl_setkey"), ("keyfn", "kl_reverse"), ("keyfn", "kl_iadd"),
    ("post_copy", "with_y"), ("post_copy", "with_score"), ("post_copy", "reset_scores"), ("post_copy", "update_multi"),
]

def make_keyedset_equiv(fam):
    """element helpers on a KeyedSet attribute that enforces item equivalence: an edit that would put an unequal item
    under an existing key is refused - and must leave the set (members and iteration order) as it was"""
    from spec_classes import Attr, spec_class
    from spec_classes.types import KeyedSet

    from vf.grammar import FAMILIES
    from vf.snapshot import describe, register, same, snap
    from vf.sym import Skip, Violation, assume, check, pick

    Item = FAMILIES[fam].Item

    @spec_class(bootstrap=(fam == "eager"))
    class KS:
        members: KeyedSet[Item, str] = Attr(default_factory=lambda: KeyedSet[Item, str](enforce_item_equivalence=True))
        y: int = 0

    register(KS, ["members", "y"])

    def h(va: int, vb: int, vn: int, op: int, inplace: bool) -> str:
        o = KS(y=va)
        o.members.add(Item("a", v=va))
        o.members.add(Item("b", v=vb))
        by = KS()
        by.members.add(Item("a", v=1))
        kw = {"_inplace": True} if inplace else {}
        opname = pick(["update_rekey", "with_item", "transform_rekey", "update_value", "with_keyed"], op)
        new_item = Item("b", v=vn)
        s_o, s_by, s_arg = snap(o), snap(by), snap(new_item)
        try:
            if opname == "update_rekey":  # re-key a onto b
                o.update_member("a", k="b", **kw)
            elif opname == "with_item":
                o.with_member(new_item, **kw)
            elif opname == "transform_rekey":
                o.transform_member("a", lambda it: Item("b", v=vn), **kw)
            elif opname == "update_value":
                o.update_member("a", v=vn, **kw)
            else:
                o.with_member("b", v=vn, **kw)
            return "returned"
        except (Violation, Skip):
            raise
        except Exception as ex:
            exc = ex
        tag = f"C04/keyedset-equivalence/{opname}"
        check(isinstance(exc, (TypeError, ValueError, KeyError)), "a refused element raises ValueError / TypeError", f"{tag}/other-exception-{type(exc).__name__}", lambda: repr(exc))
        check(same(snap(o), s_o), "an operation that raises leaves the receiver, its nested values and containers exactly as before", f"{tag}/receiver-changed-{'inplace' if inplace else 'copy'}", lambda: f"{describe(s_o)} -> {describe(snap(o))}")
        check(same(snap(new_item), s_arg), "... and the arguments", f"{tag}/argument-changed")
        check(same(snap(by), s_by), "... and other instances", f"{tag}/bystander-changed")
        return "raised"

    h.__name__ = f"C04_keyedset_equiv_{fam}"
    return h


_base_obligations = obligations


def obligations(tier):  # noqa: F811
    from vf.sym import Ob

    obs = _base_obligations(tier)
    T = 200 if tier == "quick" else 900
    for fam in ("eager",) if tier == "quick" else ("eager", "lazy"):
        for who, opname in CALLBACK_MATRIX:
            obs.append(Ob(f"C04.{fam}.callback.{who}.{opname}", make_callback(fam, who, opname), [(at, 5, s, ip) for at in (1, 2, 3) for s in (0, 1) for ip in (False, True)], f"user callback `{who}` raising at its at-th invocation (at symbolic in 1..4) during {opname}; _inplace symbolic; snapshots of receiver, its keyed container, the argument list and a bystander instance compared on every raising path", expect=set(), timeout=T))
        obs.append(Ob(f"C04.{fam}.keyedset-equivalence", make_keyedset_equiv(fam), [(1, 2, vn, op, ip) for vn in (2, 3) for op in range(5) for ip in (False, True)], "KeyedSet[Item,str](enforce_item_equivalence=True) attribute holding items a, b with symbolic payloads; update_/with_/transform_<member> that re-key a onto b or add an unequal item under b (symbolic payload), _inplace symbolic; snapshots (members, order, identities) compared on every raising path", expect=set(), timeout=T))
    return obs
