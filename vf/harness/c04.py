"""C04 — an operation that raises leaves every pre-existing object unchanged.

One helper call, assignment or deletion (copy-on-write AND _inplace=True, symbolic) on a template instance built from symbolic leaves; arguments conforming and
non-conforming, callbacks that raise or return ill-typed values, missing indices/keys, unknown keywords; deep identity +
content snapshots of receiver, arguments and a bystander instance, compared on every path where the call raised."""
from vf.specops import K2_OPS, K2_SET_OPS, K3_OPS, K4_DUP_OPS, K4_OPS, K5_FAIL_OPS, K5_OPS
from vf.stepcheck import K1_MATRIX, make, warm
from vf.sym import Ob

PROP = "C04"


def matrix(tier):
    out = []
    for opname, attr in K1_MATRIX:
        for conform in (True, False):
            if not conform and opname not in ("with", "update2"):
                continue
            out.append(("K1", opname, attr, conform))
    for opname in K2_OPS:
        for conform in (True, False):
            if not conform and opname in ("transform_num", "without_num", "reset_nums", "transform_opt", "without_opt", "with_nums", "with_opts", "with_tags"):
                continue
            out.append(("K2", opname, None, conform))
    for opname in K2_SET_OPS:
        out.append(("K2S", opname, None, True))
        if opname in ("with_val", "update_val"):
            out.append(("K2S", opname, None, False))
    for opname in K3_OPS:
        for attr in ("inner", "inner2"):
            out.append(("K3", opname, attr, True))
    for opname in K4_OPS:
        if PROP == "C01" and opname.startswith("setattr"):
            continue
        for conform in (True, False):
            out.append(("K4", opname, None, conform))
    for opname in K4_DUP_OPS:
        out.append(("K4", opname, None, True))
    for opname in K5_FAIL_OPS:
        out.append(("K5", opname, None, True))
    for opname in K5_OPS:
        out.append(("K5", opname, None, True))
    return out


def obligations(tier):
    obs = []
    T = 200 if tier == "quick" else 900
    fams = ("eager",) if tier == "quick" else ("eager", "lazy")
    for fam in fams:
        for tmpl, opname, attr, conform in matrix(tier):
            if fam == "lazy" and tmpl not in ("K2", "K3"):
                continue
            obs.append(
                Ob(
                    f"{PROP}.{fam}.{tmpl}.{opname}{'.' + attr if attr else ''}.{'conf' if conform else 'illtyped'}",
                    make(PROP, fam, tmpl, opname, attr, conform),
                    warm(tmpl),
                    f"template {tmpl} ({fam}); helper {opname}{' on ' + attr if attr else ''} _inplace symbolic; {'conforming' if conform else 'NON-conforming'} symbolic argument values; container length <= 2; indices in [-3,3]; callbacks from {{+c, raises, returns ill-typed}}",
                    expect=set(),
                    timeout=T,
                )
            )
    return obs
