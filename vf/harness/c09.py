"""C09 — the generated constructor assigns exactly what the class hierarchy specifies.

Hierarchies (depth <= 3) are built once per bootstrap mode; keyword presence bits, keyword values (conforming symbolic
leaves or non-conforming pool members), positional/keyword key and one unknown keyword are symbolic; the oracle is a
reference resolution over a hand-written description of each hierarchy (never the library's metadata).
"""
from typing import Dict, List

from spec_classes import MISSING, Attr, spec_class

from vf.sym import Ob, Violation, assume, check, pick

COUNTS = {}


def bump(k):
    COUNTS[k] = COUNTS.get(k, 0) + 1


def make(bootstrap):
    kw = dict(bootstrap=bootstrap)

    @spec_class(**kw)
    class P:
        a: int = 1
        b: str = "b"
        xs: List[int] = []

        def __post_init__(self):
            bump("post")
            # all attributes are set when the hook runs
            COUNTS["post_saw"] = (getattr(self, "a", "<unset>"), getattr(self, "b", "<unset>"), getattr(self, "c", "<na>"))

    @spec_class(**kw)
    class C(P):  # re-defaults a (no annotation), adds c and d (d has no default)
        a = 10
        c: int = 3
        d: int

    class PC(C):  # plain subclass overriding b
        b = "pc"

    @spec_class(**kw)
    class R(P):  # re-declares a
        a: int = 20

    @spec_class(**kw)
    class A1:
        a: int = 1

    @spec_class(**kw)
    class B1:
        b: str = "two"

    @spec_class(**kw)
    class M(A1, B1):  # two spec parents
        c: int = 0

    @spec_class(**kw)
    class HP:  # hand-written parent constructor of the documented shape
        a: int
        b: str = "hb"

        def __init__(self, a=100, b="sig"):
            bump("HP.init")
            self.a = a + 1
            self.b = b

    @spec_class(**kw)
    class HC(HP):
        c: int = 3

    @spec_class(**kw)
    class HD(HP):  # re-defaults a: passed to the parent constructor
        a = 7
        c: int = 3

    @spec_class(**kw)
    class HZ(HP):  # FALSY re-defaults: they too are passed to the parent constructor
        a = 0
        b = ""
        c: int = 3

    @spec_class(**kw)
    class HM(HP):  # re-declares a (now owned by HM, initialised by the generated constructor AFTER the grandparent's ran)
        a: int = 50

    @spec_class(**kw)
    class HL(HM):
        c: int = 3

    @spec_class(key="b", **kw)
    class KF:  # key whose default comes from a factory: optional
        b: str = Attr(default_factory=lambda: "gen")
        a: int = 0
        c: int = 4

    @spec_class(**kw)
    class KB:  # depth-3 chain, the key is introduced in the MIDDLE class
        a: int = 0

    @spec_class(key="b", **kw)
    class KM(KB):
        b: str

    @spec_class(**kw)
    class KL(KM):
        c: int = 4

    @spec_class(**kw)
    class OB:  # overflow attribute introduced in the middle of a depth-3 chain
        a: int = 1

    @spec_class(init_overflow_attr="extra", **kw)
    class OM(OB):
        b: str = "b"

    @spec_class(**kw)
    class OL(OM):
        c: int = 2

    @spec_class(**kw)
    class NI:  # init=False attribute
        a: int = 1
        h: int = Attr(default=5, init=False)
        c: int = 2

    @spec_class(key="b", **kw)
    class K:  # key without default: required, may be passed positionally
        b: str
        a: int = 0
        c: int = 4

    @spec_class(key="b", **kw)
    class KD:  # key with default
        b: str = "dflt"
        a: int = 0
        c: int = 4

    @spec_class(init_overflow_attr="extra", **kw)
    class O:
        a: int = 1
        b: str = "b"
        c: int = 2

    @spec_class(**kw)
    class NIS(NI):  # spec subclass of a class with an init=False attribute (which has a default)
        b: str = "nb"

    @spec_class(**kw)
    class NIR(NI):  # re-defaults the inherited init=False attribute (no annotation): it stays init=False
        h = 8
        b: str = "nb"

    @spec_class(**kw)
    class PF:
        a: int = Attr(default_factory=lambda: 11)
        b: str = "b"

    @spec_class(do_not_copy=True, **kw)
    class FD(PF):  # changes do_not_copy: inherited default factories survive
        c: int = 3

    @spec_class(key="b", **kw)
    class KZ:  # key with a FALSY default: still a default, so the key stays optional (seeded change C09-E)
        b: str = ""
        a: int = 0
        c: int = 4

    @spec_class(key="b", **kw)
    class KRP:
        b: str
        a: int = 0

    @spec_class(key="b", **kw)
    class KR(KRP):  # restates the key and gives it a default: optional
        b = "x"
        c: int = 4

    ns = {c.__name__: c for c in (P, C, PC, R, M, HC, HD, HZ, HL, KF, KL, OL, NI, K, KD, O, NIS, NIR, FD, KR, KZ)}
    return ns


FAM = {"eager": make(True), "lazy": make(False)}

ND = object()  # no default
# reference description: class -> dict(attrs=[(name, type, default)], key, overflow, parent_ctor attrs, noninit)
REF = {
    "P": dict(attrs=[("a", int, 1), ("b", str, "b"), ("xs", list, [])], post=True),
    "C": dict(attrs=[("a", int, 10), ("b", str, "b"), ("xs", list, []), ("c", int, 3), ("d", int, ND)], post=True),
    "PC": dict(attrs=[("a", int, 10), ("b", str, "pc"), ("xs", list, []), ("c", int, 3), ("d", int, ND)], post=True),
    "R": dict(attrs=[("a", int, 20), ("b", str, "b"), ("xs", list, [])], post=True),
    "M": dict(attrs=[("b", str, "two"), ("a", int, 1), ("c", int, 0)]),
    "HC": dict(attrs=[("a", int, ND), ("b", str, "hb"), ("c", int, 3)], hand={"a": 100, "b": "sig"}),
    "HD": dict(attrs=[("a", int, 7), ("b", str, "hb"), ("c", int, 3)], hand={"a": 100, "b": "sig"}),
    "HZ": dict(attrs=[("a", int, 0), ("b", str, ""), ("c", int, 3)], hand={"a": 100, "b": "sig"}),
    "HL": dict(attrs=[("a", int, 50), ("b", str, "hb"), ("c", int, 3)], hand={"b": "sig"}),
    "KF": dict(attrs=[("b", str, "gen"), ("a", int, 0), ("c", int, 4)], key="b"),
    "KL": dict(attrs=[("a", int, 0), ("b", str, ND), ("c", int, 4)], key="b"),
    "OL": dict(attrs=[("a", int, 1), ("b", str, "b"), ("c", int, 2)], overflow="extra"),
    "NI": dict(attrs=[("a", int, 1), ("h", int, 5), ("c", int, 2)], noninit={"h"}),
    "K": dict(attrs=[("b", str, ND), ("a", int, 0), ("c", int, 4)], key="b"),
    "KD": dict(attrs=[("b", str, "dflt"), ("a", int, 0), ("c", int, 4)], key="b"),
    "O": dict(attrs=[("a", int, 1), ("b", str, "b"), ("c", int, 2)], overflow="extra"),
    "NIS": dict(attrs=[("a", int, 1), ("h", int, 5), ("c", int, 2), ("b", str, "nb")], noninit={"h"}),
    "NIR": dict(attrs=[("a", int, 1), ("h", int, 8), ("c", int, 2), ("b", str, "nb")], noninit={"h"}),
    "FD": dict(attrs=[("a", int, 11), ("b", str, "b"), ("c", int, 3)]),
    "KR": dict(attrs=[("b", str, "x"), ("a", int, 0), ("c", int, 4)], key="b"),
    "KZ": dict(attrs=[("b", str, ""), ("a", int, 0), ("c", int, 4)], key="b"),
}
UNKNOWN = ["zz", "with_a", "_priv", "h2"]


def make_h(fam, cname):
    cls = FAM[fam][cname]
    ref = REF[cname]

    def h(pa: bool, va: int, ba: bool, pb: bool, sb: str, bb: bool, pc: bool, vc: int, unk: bool, un: int, kpos: bool, ph: bool, bad: int) -> str:
        kwargs = {}
        args = []
        illtyped = False
        if pa:
            if ba:
                kwargs["a"] = pick([None, "s", 1.5, [1]], bad)
                illtyped = True
            else:
                kwargs["a"] = va
        if pb:
            if bb:
                v = pick([None, 3, 1.5, ["s"]], bad)
                illtyped = True
            else:
                v = sb
            if ref.get("key") == "b" and kpos:
                args.append(v)
            else:
                kwargs["b"] = v
        if pc:
            kwargs["c"] = vc
        unknown = {}
        if unk:
            unknown[pick(UNKNOWN, un)] = 1
        if ph and "noninit" in ref:
            unknown["h"] = 9  # an init=False attribute is not an advertised keyword
        for n_ in ("a", "b", "c"):
            if n_ in kwargs and n_ not in [x[0] for x in ref["attrs"]]:
                unknown[n_] = kwargs[n_]  # not an attribute of this hierarchy: an unknown keyword
        kwargs.update(unknown)
        COUNTS.clear()
        try:
            o = cls(*args, **kwargs)
            exc = None
        except Violation:
            raise
        except Exception as ex:
            o, exc = None, ex
        tag = f"C09/{cname}"
        names = [n for n, _, _ in ref["attrs"]]
        key = ref.get("key")
        key_missing = key is not None and dict((n, d) for n, _, d in ref["attrs"])[key] is ND and not pb
        if unknown and not ref.get("overflow"):
            check(isinstance(exc, TypeError), "unknown keywords raise TypeError unless an overflow attribute is configured", f"{tag}/unknown-keyword-accepted", lambda: f"{kwargs!r} -> {o!r} / {exc!r}")
            return "TypeError-unknown"
        if key_missing:
            check(isinstance(exc, TypeError), "the key attribute is required when it has no default", f"{tag}/missing-key-accepted", lambda: f"{o!r} {exc!r}")
            return "TypeError-key"
        if illtyped:
            check(isinstance(exc, (TypeError, ValueError)), "a non-conforming keyword value is refused", f"{tag}/illtyped-accepted", lambda: f"{kwargs!r} -> {o!r}")
            return "TypeError-illtyped"
        check(exc is None, "the constructor accepts every subset of its keywords", f"{tag}/unexpected-{type(exc).__name__}", lambda: f"args={args!r} kwargs={kwargs!r}: {exc!r}")
        given = dict(kwargs)
        if args:
            given["b"] = args[0]
        hand = ref.get("hand")
        for n, T, d in ref["attrs"]:
            got = getattr(o, n, ND)
            if got is MISSING:
                got = ND
            if n in given and n not in ref.get("noninit", ()):
                want = given[n]
            else:
                want = d
            if hand and n in hand:
                # owned by the parent with a hand-written constructor: initialised through that constructor
                src = given[n] if n in given else (d if d is not ND else hand[n])
                want = src + 1 if n == "a" else src
            if want is ND:
                check(got is ND, "an attribute without keyword and without default is missing", f"{tag}/{n}/should-be-missing", lambda: f"{got!r}")
            else:
                check(got is not ND and (got is want or got == want), "each managed attribute equals the keyword value if given, otherwise the nearest default along the MRO", f"{tag}/{n}/value", lambda: f"{n}: got {got!r} want {want!r} (kwargs {kwargs!r}, args {args!r})")
        if ref.get("overflow"):
            extra = getattr(o, ref["overflow"], ND)
            check(extra is not ND and dict(extra) == unknown, "the overflow attribute receives exactly the unknown keywords", f"{tag}/overflow", lambda: f"{extra!r} vs {unknown!r}")
        if ref.get("post"):
            check(COUNTS.get("post", 0) == 1, "__post_init__ runs exactly once", f"{tag}/post-init-count-{COUNTS.get('post', 0)}")
            saw = COUNTS.get("post_saw")
            check(saw is not None and (saw[0] is o.a or saw[0] == o.a) and saw[1] == o.b, "__post_init__ runs after all attributes are set", f"{tag}/post-init-early", lambda: f"{saw!r} vs a={o.a!r} b={o.b!r}")
        if hand:
            check(COUNTS.get("HP.init", 0) == 1, "attributes owned by a parent are initialised through that parent's constructor, exactly once", f"{tag}/parent-ctor-count-{COUNTS.get('HP.init', 0)}")
        return "ok"

    h.__name__ = f"ctor_{fam}_{cname}"
    return h


def _warm():
    out = []
    for pa in (False, True):
        for pb in (False, True):
            for pc in (False, True):
                for unk in (False, True):
                    for bad in (0, 1):
                        out.append((pa, 5, bad == 1 and pa, pb, "q", False, pc, 7, unk, bad, pb and not pa, unk, bad))
    return out


def obligations(tier):
    obs = []
    T = 200 if tier == "quick" else 900
    for fam in ("eager", "lazy"):
        for cname in REF:
            if tier == "quick" and fam == "lazy" and cname in ("PC", "R", "M", "KD", "NI", "HZ", "OL", "KF", "NIR", "FD", "KZ"):
                continue
            obs.append(Ob(f"C09.{fam}.{cname}", make_h(fam, cname), _warm(), f"hierarchy {cname} ({fam} bootstrap); keyword presence bits for a, b, c; values conforming symbolic (int / str) or from a non-conforming pool; key passed positionally or by name; one unknown keyword from {UNKNOWN}; init=False attribute passed by name", expect={"ok"}, timeout=T))
    return obs
