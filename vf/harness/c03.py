"""C03 — managed attributes always satisfy their declared type on every mutation route.

One helper call, assignment or deletion (copy-on-write AND _inplace=True, symbolic) on a template instance built from symbolic leaves; arguments conforming and
non-conforming, callbacks that raise or return ill-typed values, missing indices/keys, unknown keywords; afterwards every managed
attribute of receiver and result (recursively) is missing or conforms (independent reference of C15); ill-typed arguments must be refused."""
from vf.specops import K2_OPS, K2_SET_OPS, K3_FAIL_OPS, K3_OPS, K4_PREP_OPS, K4_OPS, K5_OPS
from vf.stepcheck import K1_MATRIX, make, warm
from vf.sym import Ob

PROP = "C03"


def matrix(tier):
    out = []
    for opname, attr in K1_MATRIX:
        for conform in (True, False):
            if not conform and opname not in ("with", "update2"):
                continue
            out.append(("K1", opname, attr, conform))
    for opname in K2_OPS:
        for conform in (True, False):
            if not conform and opname in ("transform_num", "without_num", "reset_nums", "transform_opt", "without_opt", "with_nums", "with_opts", "with_tags"):
                continue
            out.append(("K2", opname, None, conform))
    for opname in K2_SET_OPS:
        out.append(("K2S", opname, None, True))
        if opname in ("with_val", "update_val"):
            out.append(("K2S", opname, None, False))
    for opname in K3_OPS:
        for attr in ("inner", "inner2"):
            out.append(("K3", opname, attr, True))
    for opname in K3_FAIL_OPS:
        for attr in ("inner", "inner2"):
            out.append(("K3", opname, attr, True))
    for opname in K4_PREP_OPS:
        if PROP == "C01" and (opname.startswith("setattr") or opname.startswith("del")):
            continue
        out.append(("K4", opname, None, True))
    for opname in K4_OPS:
        if PROP == "C01" and opname.startswith("setattr"):
            continue
        for conform in (True, False):
            out.append(("K4", opname, None, conform))
    for opname in K5_OPS:
        out.append(("K5", opname, None, True))
    return out


def obligations(tier):
    obs = []
    T = 200 if tier == "quick" else 900
    fams = ("eager",) if tier == "quick" else ("eager", "lazy")
    for fam in fams:
        for tmpl, opname, attr, conform in matrix(tier):
            if fam == "lazy" and tmpl not in ("K2", "K3"):
                continue
            obs.append(
                Ob(
                    f"{PROP}.{fam}.{tmpl}.{opname}{'.' + attr if attr else ''}.{'conf' if conform else 'illtyped'}",
                    make(PROP, fam, tmpl, opname, attr, conform),
                    warm(tmpl),
                    f"template {tmpl} ({fam}); helper {opname}{' on ' + attr if attr else ''} _inplace symbolic; {'conforming' if conform else 'NON-conforming'} symbolic argument values; container length <= 2; indices in [-3,3]; callbacks from {{+c, raises, returns ill-typed}}",
                    expect=set(),
                    timeout=T,
                )
            )
    return obs


# ---------------------------------------------------------------------------------------------------------------------
# preparers / item preparers that return conforming or NON-conforming values (the type check comes after preparation)


def make_preparer(fam):
    from typing import List as _List

    from spec_classes import spec_class

    from vf.sym import Skip, Violation, check, pick

    @spec_class(bootstrap=(fam == "eager"))
    class PR:
        pw: int = 0
        scores: _List[int] = []

        def _prepare_pw(self, v):
            if v == 13:
                return [v]  # a preparer returning an ill-typed value
            if isinstance(v, str):
                return len(v)
            return v

        def _prepare_score(self, v):
            if v == 13:
                return "thirteen"  # an item preparer returning an ill-typed element
            return v

    def h(v: int, w: int, route: int, inplace: bool) -> str:
        o = PR(pw=1, scores=[1])
        kw = {"_inplace": True} if inplace else {}
        name = pick(["with_pw", "setattr_pw", "update_pw", "ctor_pw", "with_score", "with_scores", "setattr_scores", "update_score", "ctor_scores", "transform_pw"], route)
        bad = v == 13 or (w == 13 and name in ("with_scores", "setattr_scores", "ctor_scores"))
        try:
            if name == "with_pw":
                r = o.with_pw(v, **kw)
            elif name == "setattr_pw":
                o.pw = v
                r = o
            elif name == "update_pw":
                r = o.update(pw=v, **kw)
            elif name == "ctor_pw":
                r = PR(pw=v)
            elif name == "transform_pw":
                r = o.transform_pw(lambda t: v, **kw)
            elif name == "with_score":
                r = o.with_score(v, **kw)
            elif name == "with_scores":
                r = o.with_scores([w, v], **kw)
            elif name == "setattr_scores":
                o.scores = [w, v]
                r = o
            elif name == "update_score":
                r = o.update_score(0, v, _by_index=True, **kw)
            else:
                r = PR(scores=[w, v])
            exc = None
        except (Violation, Skip):
            raise
        except Exception as ex:
            r, exc = None, ex
        tag = f"C03/preparer/{name}"
        for who, x in (("receiver", o), ("result", r)):
            if x is None:
                continue
            check(isinstance(x.pw, int) and not isinstance(x.pw, list), "each managed attribute holds a value that conforms to its annotation (prepared values included)", f"{tag}/nonconforming-pw-{who}", lambda: f"{x.pw!r}")
            check(all(isinstance(e, int) for e in x.scores), "element types of list generics", f"{tag}/nonconforming-score-{who}", lambda: f"{x.scores!r}")
        if bad:
            check(isinstance(exc, (TypeError, ValueError)), "an operation that would establish a non-conforming value raises TypeError or ValueError instead of storing it", f"{tag}/ill-typed-prepared-value-accepted", lambda: f"{exc!r} {r!r}")
            return "refused"
        check(exc is None, "conforming prepared values are accepted", f"{tag}/unexpected-{type(exc).__name__}", lambda: repr(exc))
        return "ok"

    h.__name__ = f"C03_preparer_{fam}"
    return h


_base_obligations = obligations


def obligations(tier):  # noqa: F811
    from vf.sym import Ob

    obs = _base_obligations(tier)
    for fam in ("eager",) if tier == "quick" else ("eager", "lazy"):
        obs.append(Ob(f"C03.{fam}.preparer", make_preparer(fam), [(v, 2, r, ip) for v in (5, 13) for r in range(10) for ip in (False, True)], "class whose preparer / item preparer returns an ill-typed value for the input 13: ten mutation routes (helpers, assignment, constructor, update, transform, whole collection) with SYMBOLIC int values, in place or copy-on-write", expect={"ok", "refused"}, timeout=200 if tier == "quick" else 900))
    return obs
