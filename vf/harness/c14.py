"""C14 — KeyedSet is a set of items identified by key.

Inductive step from an arbitrary valid KeyedSet (public constructor), one operation with symbolic arguments, oracle =
dict key -> most recently added item (+ set algebra on keys for the binary operators).
"""
from typing import List

from spec_classes import spec_class
from spec_classes.types import KeyedSet

from vf.sym import Ob, Violation, assume, check

KEYS = ["a", "b", "c", "d", "e"]


@spec_class(key="k", bootstrap=True)
class Item:
    k: str
    v: int = 0


class UTuple:
    name = "tuple"  # hashable items, explicit key function, key type differs from item type
    hashable = True

    @staticmethod
    def mk(ki, p):
        return (KEYS[ki], p)

    @staticmethod
    def keyf(it):
        return it[0]

    @staticmethod
    def new(items, e):
        return KeyedSet(items, key=UTuple.keyf, enforce_item_equivalence=e)

    keys = KEYS


class USpec:
    name = "spec"  # keyed spec-class items (unhashable), default key extraction
    hashable = False

    @staticmethod
    def mk(ki, p):
        return Item(KEYS[ki], v=p)

    @staticmethod
    def keyf(it):
        return it.k

    @staticmethod
    def new(items, e):
        return KeyedSet(items, enforce_item_equivalence=e)

    keys = KEYS


class USpecTyped(USpec):
    name = "spec-typed"

    @staticmethod
    def new(items, e):
        return KeyedSet[Item, str](items, enforce_item_equivalence=e)


class UList:
    name = "list"  # unhashable items with hashable keys
    hashable = False

    @staticmethod
    def mk(ki, p):
        return [KEYS[ki], p]

    @staticmethod
    def keyf(it):
        return it[0]

    @staticmethod
    def new(items, e):
        return KeyedSet(items, key=UList.keyf, enforce_item_equivalence=e)

    keys = KEYS


class USelf:
    name = "self"  # hashable items that are their own key
    hashable = True

    @staticmethod
    def mk(ki, p):
        return KEYS[ki]

    @staticmethod
    def keyf(it):
        return it

    @staticmethod
    def new(items, e):
        return KeyedSet(items, enforce_item_equivalence=e)

    keys = KEYS


class UStrip:
    name = "strip"  # hashable str items, key = item.strip(): includes FALSY items ("") and items equal to their own key
    hashable = True
    POOL = ["", " ", "a", " a", "b", " b", "c", " c", "d", " d"]
    keys = ["", "a", "b", "c", "d"]

    @staticmethod
    def mk(ki, p):
        return UStrip.POOL[2 * ki + p]

    @staticmethod
    def keyf(it):
        return it.strip()

    @staticmethod
    def new(items, e):
        return KeyedSet(items, key=UStrip.keyf, enforce_item_equivalence=e)


UNIVERSES = {u.name: u for u in (UTuple, USpec, USpecTyped, UList, USelf, UStrip)}


def same(a, b):
    return a is b or a == b


def observe(s, model, U, univ, where):
    """public reads agree with the dict model (key -> item)."""
    check(len(s) == len(model), "len sees one item per key", f"C14/{where}/len", lambda: f"{len(s)} vs {len(model)}")
    got = list(iter(s))
    check(len(got) == len(model), "iteration sees one item per key", f"C14/{where}/iter-len")
    for it in got:
        k = U.keyf(it)
        check(k in model and same(model[k], it), "iteration yields the stored items", f"C14/{where}/iter-item", lambda: f"{it!r}")
    gk = list(s.keys())
    check(len(gk) == len(model) and all(k in model for k in gk), "keys()", f"C14/{where}/keys")
    for k in univ:
        if k in model:
            check(k in s, "membership by key", f"C14/{where}/contains-key")
            check(model[k] in s, "membership by item", f"C14/{where}/contains-item")
            check(same(s[k], model[k]), "lookup by key", f"C14/{where}/getitem-key")
            check(same(s[model[k]], model[k]), "lookup by item", f"C14/{where}/getitem-item")
            check(same(s.get(k), model[k]), "get(key)", f"C14/{where}/get")
        else:
            check(k not in s, "membership of an absent key", f"C14/{where}/contains-absent")
            check(s.get(k, None) is None, "get(absent)", f"C14/{where}/get-absent")
            try:
                s[k]
                ok = False
            except KeyError:
                ok = True
            check(ok, "lookup of an absent key raises KeyError", f"C14/{where}/getitem-absent")


UNARY = ("add", "discard", "remove", "contains", "getitem", "pop", "clear")
BINARY = ("or", "and", "sub", "xor", "le", "eq", "ior", "isub", "isdisjoint")


def make_step(uname, op, nmax, operand="keyed", bad=None):
    U = UNIVERSES[uname]

    def step(n: int, p: List[int], e: bool, k1: int, q1: int, byitem: bool, m: int, k2: int, q2: int, k3: int, q3: int) -> str:
        assume(0 <= n <= nmax)
        assume(len(p) == nmax)
        univ = U.keys[: n + 2]
        hashed = U.hashable and uname != "self"
        if hashed:
            for x in range(nmax):
                assume(0 <= p[x] <= 1)
        items = [U.mk(x, p[x]) for x in range(n)]
        s = U.new(items, e)
        model = {U.keyf(it): it for it in items}
        pre = dict(model)

        def unchanged(where):
            observe(s, pre, U, univ, where)

        if op in UNARY:
            if op in ("add", "discard", "remove", "contains", "getitem"):
                assume(0 <= k1 <= n)
                if hashed:
                    assume(0 <= q1 <= 1)
                it = U.mk(k1, q1)
                key = U.keyf(it)
                if U.hashable and it == key:
                    byitem = False  # an item that equals its own key is resolved as a key
            if op == "add":
                if bad == "item":
                    it = 12345 if uname != "self" else 12345
                    try:
                        s.add(it)
                        raised = None
                    except Exception as ex:
                        raised = ex
                    check(isinstance(raised, TypeError), "a parameterised KeyedSet never admits an item of the wrong type", "C14/add/bad-item-admitted", lambda: repr(raised))
                    unchanged("add-bad-item")
                    return "TypeError"
                conflict = e and key in model and not same(model[key], it) and not (model[key] == it)
                try:
                    s.add(it)
                    raised = None
                except Violation:
                    raise
                except Exception as ex:
                    raised = ex
                if conflict:
                    check(isinstance(raised, ValueError), "enforce_item_equivalence: unequal item under an existing key raises ValueError", "C14/add/should-raise-ValueError", lambda: repr(raised))
                    unchanged("add-after-ValueError")
                    return "ValueError"
                check(raised is None, "add must not raise", f"C14/add/unexpected-{type(raised).__name__}", lambda: repr(raised))
                model[key] = it
                observe(s, model, U, univ, "add")
                return "ok"
            if op in ("discard", "remove"):
                arg = it if byitem else key
                present = key in model and (not byitem or not e or model[key] == it)
                try:
                    getattr(s, op)(arg)
                    raised = None
                except Violation:
                    raise
                except Exception as ex:
                    raised = ex
                if op == "remove" and not present:
                    check(isinstance(raised, KeyError), "remove of an absent item/key raises KeyError", "C14/remove/should-raise-KeyError", lambda: repr(raised))
                    unchanged("remove-after-KeyError")
                    return "KeyError"
                check(raised is None, f"{op} must not raise", f"C14/{op}/unexpected-{type(raised).__name__}", lambda: repr(raised))
                if present:
                    del model[key]
                observe(s, model, U, univ, op)
                return "ok"
            if op == "contains":
                arg = it if byitem else key
                want = key in model and (not byitem or not e or model[key] == it)
                check((arg in s) == want, "membership accepts an item or its key", "C14/contains/result")
                unchanged("contains")
                return "ok"
            if op == "getitem":
                arg = it if byitem else key
                try:
                    got = s[arg]
                    raised = None
                except Exception as ex:
                    got, raised = None, ex
                if key in model:
                    check(raised is None and same(got, model[key]), "lookup accepts an item or its key", "C14/getitem/result", lambda: f"{got!r} {raised!r}")
                else:
                    check(isinstance(raised, KeyError), "lookup of an absent key raises KeyError", "C14/getitem/should-raise-KeyError", lambda: repr(raised))
                unchanged("getitem")
                return "ok"
            if op == "pop":
                try:
                    got = s.pop()
                    raised = None
                except Exception as ex:
                    got, raised = None, ex
                if not model:
                    check(isinstance(raised, KeyError), "pop from empty raises KeyError", "C14/pop/should-raise-KeyError")
                    return "KeyError"
                check(raised is None, "pop must not raise", f"C14/pop/unexpected-{type(raised).__name__}", lambda: repr(raised))
                k = U.keyf(got)
                check(k in model and same(model[k], got), "pop returns a stored item", "C14/pop/result")
                del model[k]
                observe(s, model, U, univ, "pop")
                return "ok"
            if op == "clear":
                s.clear()
                observe(s, {}, U, univ, "clear")
                return "ok"
        # ---- binary operators
        assume(0 <= m <= 2)
        assume(0 <= k2 <= n + 1 and 0 <= k3 <= n + 1)
        assume(k2 != k3)
        if hashed:
            assume(0 <= q2 <= 1 and 0 <= q3 <= 1)
        oitems = [U.mk(k2, q2), U.mk(k3, q3)][:m]
        omodel = {U.keyf(it): it for it in oitems}
        if operand == "keyed":
            other = U.new(oitems, e)
        else:
            other = set(oitems)
        ka, kb = set(model), set(omodel)
        # With enforce_item_equivalence an unequal item under a shared key makes membership/add item-sensitive; the
        # statement gives set algebra "on keys", so shared keys carry equal items in that configuration.
        conflict = any(k in omodel and not (model[k] == omodel[k]) for k in model)
        if e or operand == "set":
            # (a built-in set operand tests membership by item equality, which is outside "algebra on keys")
            assume(not conflict)
        if op in ("or", "and", "sub", "xor"):
            f = {"or": lambda: s | other, "and": lambda: s & other, "sub": lambda: s - other, "xor": lambda: s ^ other}[op]
            want = {"or": ka | kb, "and": ka & kb, "sub": ka - kb, "xor": ka ^ kb}[op]
            r = f()
            check(isinstance(r, KeyedSet), f"{op} returns a KeyedSet", f"C14/{op}/type")
            rk = list(r.keys())
            check(len(rk) == len(want) and all(k in want for k in rk), f"{op} follows set algebra on keys", f"C14/{op}/keys", lambda: f"{rk!r} vs {sorted(want)!r}")
            rmodel = {}
            for k in want:
                cands = [d[k] for d in (model, omodel) if k in d]
                check(k in r and any(same(r[k], c) for c in cands), f"{op}: result is keyed like its operands", f"C14/{op}/lookup", lambda: f"key {k!r}")
                rmodel[k] = r[k]
            observe(r, rmodel, U, univ, f"{op}-result")
            unchanged(f"{op}-receiver")
            # the result is a KeyedSet like its operands: same key function AND same equivalence setting
            if rmodel and uname in ("tuple", "list", "spec"):
                k0 = next(iter(rmodel))
                stored = rmodel[k0]
                other_payload = U.mk(U.keys.index(k0), 7)  # same key, different payload
                if not (stored == other_payload):
                    try:
                        r.add(other_payload)
                        raised = None
                    except Exception as ex:
                        raised = ex
                    if e:
                        check(isinstance(raised, ValueError), "the result of a set operator enforces item equivalence like its operands", f"C14/{op}/result-lost-equivalence-setting", lambda: repr(raised))
                    else:
                        check(raised is None, "the result of a set operator of non-enforcing operands does not enforce", f"C14/{op}/result-gained-equivalence-setting", lambda: repr(raised))
            return "ok"
        if op == "le":
            check((s <= other) == (ka <= kb), "<= follows set algebra on keys", "C14/le/result")
            unchanged("le")
            return "ok"
        if op == "isdisjoint":
            check(s.isdisjoint(other) == ka.isdisjoint(kb), "isdisjoint follows set algebra on keys", "C14/isdisjoint/result")
            return "ok"
        if op == "eq":
            r = s == other
            if ka != kb:
                check(r is False or r is NotImplemented or r == False, "== is False for different key sets", "C14/eq/different-keys")  # noqa: E712
            elif not conflict:
                check(bool(r), "== is True for equal key sets holding equal items", "C14/eq/equal")
            unchanged("eq")
            return "ok"
        if op == "ior":
            s2 = s
            s2 |= other
            check(s2 is s, "|= is in place", "C14/ior/identity")
            for k, it in omodel.items():
                model[k] = it
            observe(s, model, U, univ, "ior")
            return "ok"
        if op == "isub":
            s2 = s
            s2 -= other
            check(s2 is s, "-= is in place", "C14/isub/identity")
            for k in kb:
                model.pop(k, None)
            observe(s, model, U, univ, "isub")
            return "ok"
        raise AssertionError(op)

    step.__name__ = f"step_{uname}_{op}_{operand}"
    return step


def _warm(nmax):
    out = []
    for n in range(nmax + 1):
        for e in (False, True):
            for k1 in (0, n):
                for byitem in (False, True):
                    out.append((n, [0] * nmax, e, k1, 1, byitem, 2, 0, 0, n + 1, 1))
                    out.append((n, [1] * nmax, e, k1, 1, byitem, 1, n, 1, 0, 0))
    return out


def obligations(tier):
    obs = []
    nmax = 2 if tier == "quick" else 3
    T = 150 if tier == "quick" else 900
    for uname in ("tuple", "spec", "list", "self"):
        for op in UNARY:
            obs.append(Ob(f"C14.{uname}.{op}.n{nmax}", make_step(uname, op, nmax), _warm(nmax), f"universe={uname}; op={op}; |set|<= {nmax}; keys = first n of {KEYS}; argument key in existing keys + one fresh; enforce_item_equivalence symbolic; addressing by item or by key symbolic; payloads symbolic ints (0..1 where items are hashed)", expect={"ok"} if op != "clear" else {"ok"}, timeout=T))
        for op in BINARY:
            obs.append(Ob(f"C14.{uname}.{op}.keyed.n{nmax}", make_step(uname, op, nmax, "keyed"), _warm(nmax), f"universe={uname}; binary op={op} against a KeyedSet with the same key function holding <=2 items whose keys are existing or fresh; |set|<= {nmax}; with enforce_item_equivalence shared keys carry equal items", expect={"ok"}, timeout=T))
    for op in BINARY:
        obs.append(Ob(f"C14.self.{op}.set.n{nmax}", make_step("self", op, nmax, "set"), _warm(nmax), f"universe=self-keyed; binary op={op} against a built-in set operand; |set|<= {nmax}", expect={"ok"}, timeout=T))
    for op in ("or", "ior", "le", "isdisjoint"):
        obs.append(Ob(f"C14.tuple.{op}.set.n{nmax}", make_step("tuple", op, nmax, "set"), _warm(nmax), f"universe=tuple; binary op={op} against a built-in set of items; |set|<= {nmax}", expect={"ok"}, timeout=T))
    obs.append(Ob(f"C14.spec-typed.add.bad-item", make_step("spec-typed", "add", nmax, bad="item"), _warm(nmax), "KeyedSet[Item,str].add(<int>) must raise TypeError and change nothing", expect={"TypeError"}, timeout=T))
    for op in UNARY + ("ior", "or", "isub"):
        nm = nmax - 1 if op in ("ior", "or", "isub") else nmax  # everything is hashed here, i.e. enumerated by the solver
        obs.append(Ob(f"C14.strip.{op}.n{nm}", make_step("strip", op, nm), _warm(nm), f"universe=strip (str items incl. the falsy item '', key=item.strip()); op={op}; |set|<= {nm}", expect={"ok"}, timeout=T))
    for op in ("add", "discard", "contains"):
        obs.append(Ob(f"C14.spec-typed.{op}.n{nmax}", make_step("spec-typed", op, nmax), _warm(nmax), f"KeyedSet[Item,str]; op={op}; conforming items", expect={"ok"}, timeout=T))
    return obs
