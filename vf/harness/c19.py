"""C19 — lazy bootstrapping equals eager bootstrapping under thread interleavings.

(a) sequential: first trigger (instantiation, __spec_class__ lookup, __dataclass_fields__ lookup, use through a
    subclass) chosen by a symbolic selector over class shapes built inside the path; the canonical description of the
    class and of a constructed instance equals that of the eagerly bootstrapped twin.
(b) E2-preempt: thread A's first use is preempted at its k-th executed library statement (k SYMBOLIC: the solver decides
    which statement; exhaustion = every statement executed by the first use is a preemption point) by thread B performing
    its own complete first use (trigger symbolic); three threads: a third first use nested inside B at symbolic j.
    A preempting thread that needs a lock held by a preempted one makes the schedule infeasible (skipped).
    Every thread's observation right after its own first use, and the final class, must equal the eager reference; no
    thread may see an exception."""
from vf import instrument

instrument.install()

import dataclasses  # noqa: E402
import inspect  # noqa: E402
from typing import List  # noqa: E402

from spec_classes import Attr, spec_class  # noqa: E402

from vf.sym import Ob, Skip, Violation, assume, check, pick  # noqa: E402

SHAPES = ["attrs", "lazy-parent", "own-new", "base-new", "keyed", "new-positional", "mixin-new"]


def make_class(shape, bootstrap):
    """returns (cls, subclass_or_None)"""
    if shape == "attrs":

        @spec_class(bootstrap=bootstrap)
        class C:
            a: int = Attr(default=3)
            l: List[int] = Attr(default_factory=lambda: [1])
            d: dict = dataclasses.field(default_factory=dict)
            s: str = "x"

    elif shape == "lazy-parent":

        @spec_class(bootstrap=bootstrap)
        class P:
            a: int = Attr(default=3)
            l: List[int] = Attr(default_factory=lambda: [1])

        @spec_class(bootstrap=bootstrap)
        class C(P):
            s: str = "x"
            a = 4

    elif shape == "own-new":

        @spec_class(bootstrap=bootstrap)
        class C:
            a: int = Attr(default=3)
            s: str = "x"

            def __new__(cls, *args, **kwargs):
                self = super().__new__(cls)
                object.__setattr__(self, "_made", "own")
                return self

    elif shape == "base-new":

        class B:
            def __new__(cls, *args, **kwargs):
                self = super().__new__(cls)
                object.__setattr__(self, "_made", "base")
                return self

        @spec_class(bootstrap=bootstrap)
        class C(B):
            a: int = Attr(default=3)
            l: List[int] = Attr(default_factory=lambda: [1])

    elif shape == "new-positional":

        @spec_class(key="name", bootstrap=bootstrap)
        class C:
            name: str
            a: int = Attr(default=3)

            def __new__(cls, name, **kwargs):  # REQUIRES its positional argument
                self = super().__new__(cls)
                object.__setattr__(self, "_made", name)
                return self

    elif shape == "mixin-new":

        class Mixin:  # mixed into the SUBCLASS after the spec class: its __new__ must run for instances of Sub
            def __new__(cls, *args, **kwargs):
                self = super().__new__(cls)
                object.__setattr__(self, "_made", "mixin")
                return self

        @spec_class(bootstrap=bootstrap)
        class C:
            a: int = Attr(default=3)
            s: str = "x"

        class Sub(C, Mixin):
            pass

        ARGS[C] = ARGS[Sub] = ()
        return C, Sub

    else:

        @spec_class(key="k", bootstrap=bootstrap)
        class C:
            k: str = "key"
            a: int = Attr(default=3)

    class Sub(C):
        pass

    ARGS[C] = ARGS[Sub] = ("kk",) if shape == "new-positional" else ()
    return C, Sub


ARGS = {}  # class -> positional constructor arguments used by the harness


def describe(cls):
    """canonical description through public / documented surfaces only"""
    md = cls.__spec_class__
    out = {"key": md.key, "frozen": md.frozen, "owner": md.owner.__name__}
    attrs = []
    for n, a in md.attrs.items():
        attrs.append((n, str(a.type), repr(a.default), a.default_factory is not None and repr(a.default_factory) != "MISSING", a.init, a.repr, a.compare, a.owner.__name__))
    out["attrs"] = attrs
    out["fields"] = sorted(getattr(cls, "__dataclass_fields__", {}).keys()) if isinstance(getattr(cls, "__dataclass_fields__", None), dict) else "not-a-dict"
    meths = []
    for n in sorted(dir(cls)):
        if n.startswith(("with_", "update", "transform", "reset", "without_")) or n in ("__init__", "__spec_class_init__"):
            try:
                meths.append((n, str(inspect.signature(getattr(cls, n)))))
            except (TypeError, ValueError) as ex:
                meths.append((n, f"<no signature: {type(ex).__name__}>"))
    out["methods"] = meths
    out["class_defaults"] = [(n, repr(cls.__dict__.get(n, "<absent>"))) for n in md.attrs]
    return out


def first_use(C, Sub, trigger, after_trigger=None):
    """perform one first use; returns the observation of the thread doing it. `after_trigger` is called right after the
    triggering access itself (the preemption window is the trigger, not the observation that follows)."""
    done = after_trigger or (lambda: None)
    if trigger == "instantiate":
        o = C(*ARGS[C])
        done()
        return {"inst": repr(o), "made": getattr(o, "_made", None), "desc": describe(C)}
    if trigger == "metadata":  # a pure lookup: the thread inspects the class, it does not instantiate it
        C.__spec_class__
        done()
        return {"desc": describe(C)}
    if trigger == "fields":
        C.__dataclass_fields__
        done()
        return {"desc": describe(C)}
    if trigger == "subclass":
        o = Sub(*ARGS[Sub])
        done()
        r = repr(o).replace("Sub(", "C(", 1)
        return {"inst": r, "made": getattr(o, "_made", None), "desc": describe(C)}
    if trigger == "metadata-then-method":
        C.__spec_class__
        names = [n for n in dir(C) if n.startswith("with_")]
        return {"desc": describe(C), "inst": repr(C()), "made": getattr(C(), "_made", None), "with": names}
    raise AssertionError(trigger)


TRIGGERS = ["instantiate", "metadata", "fields", "subclass"]
REF = {}


def reference(shape, trigger):
    key = (shape, trigger)
    if key not in REF:
        C, Sub = make_class(shape, True)
        REF[key] = first_use(C, Sub, trigger)
    return REF[key]


def same_obs(got, want):
    return got == want


def make_seq():
    def h(sh: int, tr: int, tr2: int) -> str:
        shape = pick(SHAPES, sh)
        trigger = pick(TRIGGERS, tr)
        C, Sub = make_class(shape, False)
        try:
            got = first_use(C, Sub, trigger)
        except (Violation, Skip):
            raise
        except Exception as ex:
            check(False, "no first use may see an exception", f"C19/seq/{shape}/{trigger}/raises-{type(ex).__name__}", lambda: repr(ex)[:300])
        want = reference(shape, trigger)
        check(same_obs(got, want), "a lazily bootstrapped spec class is indistinguishable from the same class bootstrapped eagerly, whichever access first triggers bootstrapping", f"C19/seq/{shape}/{trigger}/differs", lambda: _diff(got, want))
        # a second, different access afterwards sees the same class
        t2 = pick(TRIGGERS, tr2)
        got2 = first_use(C, Sub, t2)
        check(same_obs(got2, reference(shape, t2)), "later accesses see the same class", f"C19/seq/{shape}/{trigger}+{t2}/differs", lambda: _diff(got2, reference(shape, t2)))
        return "ok"

    return h


def _diff(got, want):
    out = []
    for k in want:
        if got.get(k) != want[k]:
            out.append(f"{k}: got {str(got.get(k))[:300]} want {str(want[k])[:300]}")
    return "; ".join(out)[:900]


def make_preempt(shape, nthreads, fa=None, fb=None, klo=1, khi=1500, only=None):
    def h(ta: int, tb: int, tc: int, k: int, j: int) -> str:
        assume(klo <= k <= khi)
        trig_a = pick(TRIGGERS, ta) if fa is None else fa
        trig_b = pick(TRIGGERS, tb) if fb is None else fb
        instrument.reset_locks()
        C, Sub = make_class(shape, False)
        obs = {}

        def run(name, trig, after=None):
            try:
                obs[name] = first_use(C, Sub, trig, after)
            except (instrument.WouldBlock, Skip, Violation):
                raise  # harness control flow, not an observation of the thread
            except Exception as ex:
                obs[name] = ("EXC", type(ex).__name__, repr(ex)[:200])

        def thread_b():
            if nthreads == 3:
                assume(1 <= j <= 1500)
                trig_c = pick(TRIGGERS, tc)
                instrument.arm(j, "preempt", callback=lambda: run("C", trig_c))
                try:
                    run("B", trig_b, instrument.disarm)
                finally:
                    instrument.disarm()
            else:
                run("B", trig_b)

        instrument.arm(k, "preempt", callback=thread_b, only_modules=only)
        try:
            run("A", trig_a, instrument.disarm)
        except instrument.WouldBlock:
            instrument.disarm()
            raise Skip()  # the preempting thread needs a lock held by the preempted one: not LIFO-nested
        finally:
            instrument.disarm()
        fired = instrument.STATE["fired"]
        for name, trig in (("A", trig_a), ("B", trig_b), ("C", pick(TRIGGERS, tc) if nthreads == 3 and "C" in obs else None)):
            if name not in obs:
                continue
            got = obs[name]
            tag = f"C19/preempt/{shape}/thread-{name}"
            check(not (isinstance(got, tuple) and got and got[0] == "EXC"), "no thread observes an exception", f"{tag}/exception-{got[1] if isinstance(got, tuple) else ''}", lambda: f"A:{trig_a} B:{trig_b} preempted at {fired}: {got!r}")
            want = reference(shape, trig)
            part = "metadata-published-before-methods" if (name != "A" and trig in ("metadata", "fields")) else "other"
            check(same_obs(got, want), "no thread observes a partially initialised class; every thread's view equals the sequential eager result", f"C19/preempt/partial-class-observed/{part}" if part != "other" else f"{tag}/differs", lambda: f"A:{trig_a} B:{trig_b} preempted at {fired}: " + _diff(got, want))
        # final class
        final = first_use(C, Sub, "instantiate")
        check(same_obs(final, reference(shape, "instantiate")), "the resulting class and instances are those of the sequential eager result", f"C19/preempt/{shape}/final-differs", lambda: _diff(final, reference(shape, "instantiate")))
        return "preempted" if "B" in obs else "completed-before-preemption"

    h.__name__ = f"c19_preempt_{shape}_{nthreads}"
    return h


_LEN = {}


def trigger_length(shape, trig, only):
    """number of instrumented statements (of the modules in `only`, or all) the triggering access executes on the
    current tree, measured after a warm-up: the preemption index must range over ALL of them (bound derived from the code)"""
    key = (shape, trig, tuple(sorted(only)) if only else None)
    if key not in _LEN:
        C, Sub = make_class(shape, False)
        first_use(C, Sub, trig)  # warm-up: lazily generated library state
        C, Sub = make_class(shape, False)
        instrument.reset_locks()
        instrument.arm(10**9, "preempt", callback=lambda: None, only_modules=only)
        try:
            first_use(C, Sub, trig, instrument.disarm)
        finally:
            _LEN[key] = instrument.STATE["count"]
            instrument.disarm()
    return _LEN[key]


def obligations(tier):
    obs = []
    T = 600 if tier == "quick" else 3000
    obs.append(Ob("C19.seq", make_seq(), [(s, t, t2) for s in range(len(SHAPES)) for t in range(4) for t2 in (0, 1)], f"sequential: class shapes {SHAPES} (Attr / dataclasses.field declarations, not-yet-bootstrapped parent, __new__ defined or inherited, keyed) built inside the path; first trigger and a second access from {TRIGGERS} by symbolic selectors (selector-only part)", expect={"ok"}, timeout=T))
    core = {"spec_classes.spec_class", "spec_classes.methods.base"}
    width = 75
    plan = []  # (shape, trigger of A, trigger of B, statement filter)
    four = (("instantiate", "instantiate"), ("instantiate", "metadata"), ("metadata", "instantiate"), ("metadata", "metadata"))
    if tier == "quick":
        for fa, fb in four:
            plan.append(("lazy-parent", fa, fb, core))
        for fa, fb in (("instantiate", "instantiate"), ("metadata", "instantiate")):
            plan.append(("attrs", fa, fb, core))
        plan.append(("base-new", "instantiate", "instantiate", core))
    else:
        for shape in SHAPES:
            for fa, fb in four if shape in ("attrs", "lazy-parent") else (("instantiate", "instantiate"), ("metadata", "instantiate")):
                plan.append((shape, fa, fb, core))
        # (sizing: all 16 trigger pairs for lazy-parent and all-statement shards for two shapes ran past 90 minutes)
        for fa, fb in (("instantiate", "subclass"), ("subclass", "instantiate"), ("fields", "instantiate"), ("instantiate", "fields")):
            plan.append(("lazy-parent", fa, fb, core))
        for fa, fb in (("instantiate", "instantiate"), ("instantiate", "metadata"), ("metadata", "instantiate")):
            plan.append(("lazy-parent", fa, fb, None))
        width = 110
    for shape, fa, fb, only in plan:
        # the preemption index ranges over every statement the triggering access executes (measured on the current
        # tree) plus a margin; the last shard therefore also contains indices at which A completes unpreempted
        kmax = trigger_length(shape, fa, only) + 15
        for klo in range(1, kmax, width):
            warm = [(0, 0, 0, k, 1) for k in (klo, klo + 7, klo + width - 1)]
            tagm = "core" if only else "all"
            obs.append(Ob(f"C19.preempt2.{shape}.A-{fa}.B-{fb}.{tagm}.k{klo}-{klo + width - 1}", make_preempt(shape, 2, fa, fb, klo, klo + width - 1, only), warm, f"E2-preempt, 2 threads, class shape {shape}: A's triggering access ({fa}) preempted at its k-th executed statement of {'spec_class.py / methods/base.py' if only else 'library code'}, k symbolic in [{klo},{klo + width - 1}] (the triggering access executes {kmax - 15} such statements on this tree: measured at listing time); B performs a complete first use ({fb}); LIFO-nested schedules only; a B that needs a lock held by A = infeasible schedule (skipped)", expect=set(), timeout=T, per_path=120, group=f"C19.preempt2.{shape}"))
    # Three nested threads (A..B..C..B..A, make_preempt(shape, 3)) are NOT registered: the index space k x j (up to
    # 1500 x 1500) cannot be exhausted, and the first end-to-end run of that shard exposed a harness fault (an
    # out-of-bound j was recorded as an exception seen by thread A) - fixed above, but the shard is not claimed.
    return obs
