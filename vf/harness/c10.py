"""C10 — equality, copying and repr are coherent and total."""
import copy
import types
from typing import Any, Dict, List, Set

from spec_classes import MISSING, Attr, spec_class

from vf.sym import Ob, Violation, assume, check, pick, symbolic_run


def _fn(x):
    return x


@spec_class(bootstrap=True)
class E:
    x: int = 0
    cb: Any = None  # bound method / function / class / module / None, by kind selector
    y: int = 0  # declared AFTER the bound-method attribute
    hidden: int = Attr(default=0, compare=False)
    nums: List[int] = []
    z: int  # may be missing

    def m(self):
        return 1

    def m2(self):
        return 2


@spec_class(bootstrap=True)
class ES(E):  # spec subclass adding an attribute
    extra: int = 0


class EP(E):  # plain subclass
    pass


KINDS = ["none", "m", "m2", "function", "class", "module", "int"]


def build(cls, x, kind, y, hidden, n0, zbit, z):
    kw = dict(x=x, y=y, hidden=hidden, nums=[n0])
    if zbit:
        kw["z"] = z
    o = cls(**kw)
    if kind == "m":
        o.cb = o.m
    elif kind == "m2":
        o.cb = o.m2
    elif kind == "function":
        o.cb = _fn
    elif kind == "class":
        o.cb = dict
    elif kind == "module":
        o.cb = types
    elif kind == "int":
        o.cb = 7
    return o


def ref_attr_eq(a, b, name):
    va = getattr(a, name, MISSING)
    vb = getattr(b, name, MISSING)
    if va is MISSING or vb is MISSING:
        return va is MISSING and vb is MISSING  # missing equals only missing
    if isinstance(va, types.MethodType) and isinstance(vb, types.MethodType):
        return va.__func__ is vb.__func__
    return va is vb or va == vb


def ref_eq(a, b, attrs=("x", "cb", "y", "nums", "z")):
    return type(a) is type(b) and all(ref_attr_eq(a, b, n) for n in attrs)


def make_eq_pair(kind_a, kind_b):
    def h(x1: int, y1: int, h1: int, n1: int, zb1: bool, z1: int, x2: int, y2: int, h2: int, n2: int, zb2: bool, z2: int) -> str:
        a = build(E, x1, kind_a, y1, h1, n1, zb1, z1)
        b = build(E, x2, kind_b, y2, h2, n2, zb2, z2)
        try:
            ab, ba, aa = a == b, b == a, a == a
            nab = a != b
        except Exception as ex:
            check(False, "== never raises", f"C10/eq/raises-{type(ex).__name__}", lambda: repr(ex))
        check(aa is True, "reflexive", "C10/eq/reflexive")
        check(ab == ba, "symmetric", "C10/eq/symmetric")
        check(nab == (not ab), "!= is the negation of ==", "C10/eq/ne")
        want = ref_eq(a, b)
        check(bool(ab) == want, "== holds exactly when all compare-enabled attributes are equal (missing equals only missing), irrespective of compare=False attributes and attribute kinds", f"C10/eq/{'false-equal' if ab else 'false-unequal'}", lambda: f"a={a!r} b={b!r} got {ab} want {want}")
        return "equal" if want else "unequal"

    h.__name__ = f"eq_pair_{kind_a}_{kind_b}"
    return h


def make_eq_triple(kind):
    def h(x1: int, y1: int, n1: int, x2: int, y2: int, n2: int, x3: int, y3: int, n3: int, zb: bool) -> str:
        a = build(E, x1, kind, y1, 0, n1, zb, 1)
        b = build(E, x2, kind, y2, 1, n2, zb, 1)
        c = build(E, x3, kind, y3, 2, n3, zb, 1)
        if a == b and b == c:
            check(a == c, "transitive", "C10/eq/transitive")
            return "chain"
        return "nochain"

    h.__name__ = f"eq_triple_{kind}"
    return h


def make_eq_copy(kind):
    def h(x: int, y: int, hd: int, n: int, zb: bool, z: int) -> str:
        a = build(E, x, kind, y, hd, n, zb, z)
        d = copy.deepcopy(a)
        check(d == a and a == d, "deepcopy(x) == x", "C10/copy/deepcopy-equal", lambda: f"{a!r} vs {d!r}")
        kw = {n_: getattr(a, n_) for n_ in ("x", "cb", "y", "hidden", "nums", "z") if getattr(a, n_, MISSING) is not MISSING}
        r = E(**kw)
        check(r == a and a == r, "re-constructing an instance from its own attribute values gives an equal instance", "C10/copy/reconstruct-equal", lambda: f"{a!r} vs {r!r}")
        return "ok"

    h.__name__ = f"eq_copy_{kind}"
    return h


def make_eq_sub(sub):
    cls = {"spec": ES, "plain": EP}[sub]

    def h(x1: int, y1: int, x2: int, y2: int, ex: int) -> str:
        a = build(E, x1, "m", y1, 0, 0, False, 0)
        b = build(cls, x2, "m", y2, 0, 0, False, 0)
        if sub == "spec":
            b.extra = ex
        ab, ba = a == b, b == a
        check(bool(ab) == bool(ba), "symmetric for a class and its subclass", f"C10/eq/sub-{sub}-symmetric", lambda: f"{ab} {ba}")
        differ = not (ref_attr_eq(a, b, "x") and ref_attr_eq(a, b, "y"))
        if differ:
            check(not ab and not ba, "unequal when a compare-enabled attribute differs", f"C10/eq/sub-{sub}-false-equal")
        b2 = build(cls, x2, "m", y2, 5, 0, False, 0)
        if sub == "spec":
            b2.extra = ex
        check(b == b2 and b2 == b, "subclass instances equal when all compare-enabled attributes are equal", f"C10/eq/sub-{sub}-equal")
        # transitivity across a class and its subclass: b3 differs from b only in the subclass's own attribute
        if sub == "spec":
            b3 = build(cls, x2, "m", y2, 0, 0, False, 0)
            b3.extra = ex + 1
            check(not (b == b3), "instances differing in a compare-enabled attribute are unequal", f"C10/eq/sub-{sub}-false-equal-own-attr")
            if (a == b) and (a == b3):
                check(b == b3, "equality is transitive, also across a class and its subclass", f"C10/eq/sub-{sub}-not-transitive", lambda: f"a == b and a == b3 but b != b3 (extra {ex!r} vs {ex + 1!r})")
            if (b == a) and (a == b3):
                check(b == b3, "equality is transitive, also across a class and its subclass", f"C10/eq/sub-{sub}-not-transitive")
        # re-constructing a SUBCLASS instance from its own attribute values (inherited attributes are initialised through the parent)
        kwv = {n_: getattr(b, n_) for n_ in ("x", "cb", "y", "hidden", "nums", "z", "extra") if getattr(b, n_, MISSING) is not MISSING}
        if sub == "plain":
            kwv.pop("extra", None)
        kwv.pop("cb", None)
        bz = cls(**{**kwv, "z": x1})  # z (no default, owned by the parent) takes a symbolic - possibly falsy - value
        rz = cls(**{n_: getattr(bz, n_) for n_ in kwv if n_ != "z"}, z=bz.z)
        check(rz == bz and bz == rz, "re-constructing an instance from its own attribute values gives an equal instance (subclass, inherited attributes)", f"C10/copy/sub-{sub}-reconstruct-unequal", lambda: f"{bz!r} vs {rz!r}")
        return "ok"

    h.__name__ = f"eq_sub_{sub}"
    return h


# ---------------------------------------------------------------------------------------------------------------------
# repr


@spec_class(bootstrap=True)
class RInner:
    a: int = 0
    tags: List[str] = []


@spec_class(key="name", bootstrap=True)
class RKeyed:
    name: str
    v: int = 0


@spec_class(bootstrap=True)
class R:
    first: Any = None
    quiet: int = Attr(default=1, repr=False)
    second: Any = None
    third: int  # may be missing
    fourth: Any = None

    def meth(self):
        return 0


REPR_ATTRS = ["first", "second", "third", "fourth"]


def repr_values(o):
    return [
        ("none", None),
        ("int", 12),
        ("short-str", "hi"),
        ("long-str", "x" * 120),
        ("newline-str", "a\nb, c=(1"),
        ("quote-str", "it's \"q\" [)"),
        ("list", [1, [2, 3]]),
        ("dict", {"k": [1], "j, x=": 2}),
        ("set", {1}),
        ("empty", []),
        ("nested", RInner(a=3, tags=["t", "u"])),
        ("nested-list", [RInner(), RInner(a=1)]),
        ("keyed", RKeyed("kk")),
        ("keyed-missing-key", RKeyed(MISSING)),
        ("self", o),
        ("self-in-list", [o]),
        ("bound-self", o.meth),
        ("bound-other", RInner().with_a),
        ("function", _fn),
        ("tuple", (1, "a")),
    ]


NV = 20


def top_level_names(text):
    """Parse 'Cls(a=..., b=...)' (plain or indented layout) and return the top-level attribute names in order."""
    i = text.index("(")
    assert text.endswith(")"), text[-20:]
    body = text[i + 1 : -1]
    names, depth, cur, q, esc = [], 0, "", None, False
    pieces = []
    for ch in body:
        if q:
            cur += ch
            if esc:
                esc = False
            elif ch == "\\":
                esc = True
            elif ch == q:
                q = None
            continue
        if ch in "'\"":
            q = ch
            cur += ch
        elif ch in "([{<":
            depth += 1
            cur += ch
        elif ch in ")]}>":
            depth -= 1
            cur += ch
        elif ch == "," and depth == 0:
            pieces.append(cur)
            cur = ""
        else:
            cur += ch
    if cur.strip():
        pieces.append(cur)
    for p in pieces:
        p = p.strip()
        names.append(p.split("=", 1)[0].strip())
    return names


def make_repr():
    def h(v1: int, v2: int, v4: int, third: bool, ind: int, thr: int, via: int) -> str:
        assume(0 <= ind <= 2)
        assume(0 <= v2 <= 1)
        assume(-1 <= thr <= 200)
        assume(0 <= via <= 1)
        o = R()
        if third:
            o.third = 3
        vals = repr_values(o)
        if symbolic_run():
            # CrossHair's own repr() of a list lacks CPython's recursion guard: [o] inside o recurses forever under
            # tracing (concretely it renders '[...]'). That value kind is exercised by the concrete sweep only.
            assume(v1 not in (13, 15, 16, 18))  # j or one of its companions (j*7+3, j*7+4, j*3+1 mod 20) would be value kind 15
        j = pick(list(range(NV)), v1)  # concrete index after the comparison chain
        o.first = vals[j][1]
        o.second = vals[(j * 7 + 3 + v2) % NV][1]  # v2 in {0,1}: two companions per first value
        o.fourth = vals[(j * 3 + 1) % NV][1]
        indent = pick([None, True, False], ind)
        try:
            if via == 0:
                text = o.__repr__(indent=indent, indent_threshold=thr)
            else:
                text = repr(o) if indent is None else o.__repr__(indent=indent)
        except Exception as ex:
            check(False, "repr never raises, also with missing values and self-referential structures", f"C10/repr/raises-{type(ex).__name__}", lambda: repr(ex)[:300])
        check(isinstance(text, str) and text.startswith("R("), "repr renders the class name", "C10/repr/prefix")
        names = top_level_names(text)
        check(names == REPR_ATTRS, "repr lists exactly the repr-enabled attributes in declaration order", "C10/repr/attributes", lambda: f"{names!r} from {text!r}")
        return "indented" if text.startswith("R(\n") else "flat"

    return h


def _warm_pair():
    return [(1, 2, 0, 3, zb, 4, 1, y2, 9, 3, zb2, 4) for zb in (False, True) for zb2 in (False, True) for y2 in (2, 5)]


@spec_class(bootstrap=True)
class FP:
    a: int = Attr(default=1, compare=False, repr=False)
    b: int = 0
    c: int = Attr(default=2, repr=False)


@spec_class(bootstrap=True)
class FS(FP):  # re-defaults inherited attributes without re-declaring them: compare / repr flags are those declared
    a = 5
    c = 6
    d: int = 0


@spec_class
class FL(FP):  # the same, lazily bootstrapped
    a = 5
    c = 6
    d: int = 0


def make_flags(lazy):
    cls = FL if lazy else FS

    def h(a1: int, a2: int, b1: int, b2: int, c1: int, c2: int) -> str:
        u, v = cls(a=a1, b=b1, c=c1), cls(a=a2, b=b2, c=c2)
        want = (b1 == b2) and (c1 == c2)
        check(bool(u == v) == want and bool(v == u) == want, "equality holds exactly when all compare-enabled attributes are equal, irrespective of compare=False attributes (flags declared on the parent, default overridden in the subclass)", "C10/flags-inherited/eq", lambda: f"{u!r} == {v!r} -> {u == v}; want {want}")
        text = repr(cls())
        check("a=" not in text and "c=" not in text and "b=" in text and "d=" in text, "repr lists exactly the repr-enabled attributes", "C10/flags-inherited/repr", lambda: text)
        w = cls()
        check(w.a == 5 and w.c == 6, "the overriding default is used", "C10/flags-inherited/default", lambda: repr((w.a, w.c)))
        return "ok"

    h.__name__ = f"flags_{'lazy' if lazy else 'eager'}"
    return h


def obligations(tier):
    obs = []
    T = 150 if tier == "quick" else 600
    kinds = KINDS
    pairs = [(k, k) for k in kinds] + [("m", "m2"), ("m", "none"), ("function", "class"), ("m", "int"), ("module", "none")]
    if tier == "thorough":
        pairs = [(a, b) for a in kinds for b in kinds]
    for ka, kb in pairs:
        obs.append(Ob(f"C10.eq.pair.{ka}.{kb}", make_eq_pair(ka, kb), _warm_pair(), f"two E instances; attribute cb holds kinds ({ka},{kb}) of {KINDS}; x,y,hidden(compare=False),nums[0],z symbolic ints, z presence symbolic (the differing position is whatever the solver picks)", expect={"equal", "unequal"} if ka == kb else {"unequal"}, timeout=T))
    for k in ("m", "none", "function"):
        obs.append(Ob(f"C10.eq.triple.{k}", make_eq_triple(k), [(1, 2, 3, 1, 2, 3, 1, 2, 3, True), (1, 2, 3, 1, 2, 4, 1, 2, 3, False)], "three E instances with symbolic x,y,nums[0]; transitivity", expect={"chain", "nochain"}, timeout=T))
    for k in kinds:
        obs.append(Ob(f"C10.eq.copy.{k}", make_eq_copy(k), [(1, 2, 3, 4, zb, 5) for zb in (False, True)], "deepcopy(x)==x and E(**attrs_of(x))==x for symbolic attribute values", expect={"ok"}, timeout=T))
    for sub in ("spec", "plain"):
        obs.append(Ob(f"C10.eq.sub.{sub}", make_eq_sub(sub), [(1, 2, 1, 2, 0), (1, 2, 1, 3, 1)], f"class E vs its {sub} subclass; symbolic x,y", expect={"ok"}, timeout=T))
    for lazy in (False, True):
        obs.append(Ob(f"C10.flags-inherited.{'lazy' if lazy else 'eager'}", make_flags(lazy), [(1, 2, 3, 3, 4, 4), (1, 1, 3, 4, 4, 4), (1, 1, 3, 3, 4, 5)], "spec subclass overriding the defaults of inherited attributes declared compare=False / repr=False on the parent (no re-annotation); symbolic attribute values; == both ways, repr contents", expect={"ok"}, timeout=T))
    obs.append(Ob("C10.repr", make_repr(), [(a, b, 0, a % 2 == 0, (a + b) % 3, t, a % 2) for a in range(NV) for b in (0, 1) for t in (-1, 50, 200)], f"R instance whose first attribute is drawn (symbolic index) from a pool of {NV} values with two/one derived companions in the other attributes (missing, self-reference, nested/keyed spec with missing key, long / newline / quote strings, containers, bound methods), `third` missing or set, indent in {{None,True,False}}, indent_threshold symbolic in [-1,200], via repr() or __repr__(...); the value kind 'instance inside a list inside itself' only in the concrete sweep (CrossHair's list repr lacks the recursion guard)", expect={"flat", "indented"}, timeout=T * 2, stub_repr=False))
    return obs
