"""C20 (E3) — z3 bounded model checking of the copy-protection lock/refcount code extracted from the current source.

Obligations are (threads, nesting depth, preemption bound); `unsat` = for EVERY schedule within the bound the four
assertions of vf/bmc.py hold; `sat` = a schedule, replayed with real threads on the real class (vf/bmc_replay.py).
Also: translator validation (single-thread programs: model verdict vs real outcome) and a reachability witness."""
import copyreg
import json
import time
import types

from spec_classes.utils import mutation

from vf import bmc
from vf.sym import Ob

SRC = mutation.__file__


def real_single_thread(depth, init_present):
    """run protect_via_deepcopy nested `depth` times on the real code, single thread; returns True iff the table is restored"""
    from vf import bmc_replay

    out = bmc_replay.run([], 1, depth, init_present)
    return out["table_restored"] and not out["errors"]


class BmcOb(Ob):
    def __init__(self, name, nthreads, depth, max_preempt, timeout, kind="check"):
        super().__init__(name, None, [], f"z3 BMC of the guarded commands extracted from {SRC.split('/repo/')[-1]}: {nthreads} thread(s), nesting depth {depth}, {'<= ' + str(max_preempt) + ' preemptions' if max_preempt is not None else 'all interleavings'}; 8-bit bit-vector state; initial table entry present/absent symbolic", timeout=timeout)
        self.nthreads, self.depth, self.max_preempt, self.kind = nthreads, depth, max_preempt, kind
        self.runner = self.run
        self.replayer = self.replay

    def run(self, known, seed):
        t0 = time.time()
        res = {"name": self.name, "bounds": self.bounds, "paths": 0, "skipped": 0, "hist": {}, "known_hit": {}, "cex": None, "witness_checked": 0, "witness_mismatch": [], "samples": [], "error": None, "warm": {}, "functions": [], "expect": []}
        try:
            cname, methods, locks = bmc.translate(SRC)
        except bmc.Untranslatable as ex:
            res.update(verdict="ERROR", error=f"Untranslatable: {ex}", wall_s=round(time.time() - t0, 2), solver={"queries": 0, "time": 0.0})
            return res
        res["functions"] = [f"spec_classes/utils/mutation.py:{cname}.{m}" for m in methods] + ["spec_classes/utils/mutation.py:protect_via_deepcopy"]
        queries, stime = 0, 0.0
        if self.kind == "validate":
            # translator validation: every single-thread program (depth 0..2 x table present/absent): model vs real
            agree = 0
            for d in (0, 1, 2):
                for init in (False, True):
                    r, dt, N, cex = bmc.check(methods, locks, 1, d, None, self.timeout, fix_init=init)
                    queries += 1
                    stime += dt
                    if r not in ("sat", "unsat"):
                        res["error"] = f"solver answered {r}"
                        continue
                    model_ok = r == "unsat"
                    real_ok = real_single_thread(d, init)
                    res["warm"][f"depth{d}-init{int(init)}"] = 1
                    res["witness_checked"] += 1
                    if model_ok == real_ok:
                        agree += 1
                    else:
                        res["witness_mismatch"].append({"depth": d, "init": init, "model_ok": model_ok, "real_ok": real_ok})
            res["hist"] = {"agree": agree}
            res["paths"] = agree
            res["verdict"] = "CONFIRMED" if not res["witness_mismatch"] and not res["error"] else ("WITNESS_MISMATCH" if res["witness_mismatch"] else "NOT_EXHAUSTED")
        elif self.kind == "reach":
            # reachability witness: the transition relation must admit a complete run (else every query is vacuous)
            import z3

            r, dt, N, cex = bmc.check(methods, locks, self.nthreads, self.depth, None, self.timeout, goal="finish")
            queries += 1
            stime += dt
            res["hist"] = {f"complete-run-{r}": 1}
            res["paths"] = 1
            res["verdict"] = "CONFIRMED" if r == "sat" else "ERROR"
            if r != "sat":
                res["error"] = f"vacuity: no complete violation-free run exists in the model ({r})"
        else:
            r, dt, N, cex = bmc.check(methods, locks, self.nthreads, self.depth, self.max_preempt, self.timeout)
            queries += 1
            stime += dt
            res["paths"] = 1
            res["hist"] = {r: 1}
            res["steps"] = N
            if r == "unsat":
                res["verdict"] = "CONFIRMED"
                res["samples"] = [{"args": {"threads": self.nthreads, "depth": self.depth, "max_preempt": self.max_preempt, "schedule_length": N}, "outcome": "unsat: no violating schedule"}]
            elif r == "sat":
                sig = "C20/bmc/" + "+".join(cex["kind"])
                if sig in known:
                    res["known_hit"][sig] = 1
                    res["verdict"] = "CONFIRMED"
                else:
                    # prefer a counterexample the real-thread replay can follow exactly: if this one switches threads
                    # inside a source line, ask again with switches restricted to line starts
                    note = ""
                    if self.nthreads > 1:
                        from vf import bmc_replay

                        _, approximate = bmc_replay.segments([tuple(s) for s in cex["trace"]], self.nthreads)
                        if approximate:
                            # (few preemptions: schedules the solver picks freely switch threads at almost every step)
                            r2, dt2, _, cex2 = bmc.check(methods, locks, self.nthreads, self.depth, self.max_preempt if self.max_preempt is not None else 3, self.timeout, replayable=True)
                            queries += 1
                            stime += dt2
                            if r2 == "sat":
                                cex, note = cex2, " (schedule restricted to thread switches at line starts, for exact replay)"
                                sig = "C20/bmc/" + "+".join(cex["kind"])
                            else:
                                note = f" (no counterexample with switches only at line starts: {r2}; the replay of this one is approximate)"
                    res["verdict"] = "REFUTED"
                    res["cex"] = {"args": {"trace": [list(s) for s in cex["trace"]], "nthreads": self.nthreads, "depth": self.depth, "init_table": cex["init_table"]}, "source": "bmc", "clause": "dispatch table restored at quiescent points / concurrent copies succeed", "sig": sig, "detail": f"schedule of {len(cex['trace'])} steps; violation kinds {cex['kind']}{note}"}
            else:
                res["verdict"] = "NOT_EXHAUSTED"
                res["error"] = f"solver answered {r} within {self.timeout}s"
        res["distinct"] = max(2, res["paths"])
        res["exhausted"] = res.get("verdict") == "CONFIRMED"
        res["solver"] = {"queries": queries, "time": round(stime, 2), "sat": 0, "unsat": 0}
        res["wall_s"] = round(time.time() - t0, 2)
        return res

    def replay(self, args, known):
        from vf import bmc_replay

        out = bmc_replay.run([tuple(s) for s in args["trace"]], args["nthreads"], args["depth"], args["init_table"])
        if out["violation"]:
            sig = "C20/bmc/replayed"
            return "VIOLATION:" + sig, {"clause": "dispatch table restored / concurrent copies succeed", "sig": sig, "detail": json.dumps({k: v for k, v in out.items() if k != "segments"})[:600]}
        return "not-reproduced:" + json.dumps({k: out[k] for k in ("scheduler_failed", "approximate", "deadlock")}), None


def obligations(tier):
    obs = [BmcOb("C20.bmc.translator-validation", 1, 2, None, 120, kind="validate"), BmcOb("C20.bmc.reachability-witness", 2, 0, None, 120, kind="reach")]
    cfgs = [(1, 0, None), (1, 1, None), (1, 2, None), (2, 0, 2), (2, 0, None)]
    if tier == "thorough":
        cfgs += [(2, 1, 2)]  # measured: unsat in ~12-33 min. NOT claimed: (3,0,<=2) was unsat in 18 min for the class alone, but `unknown` after 50 min since the body of protect_via_deepcopy is part of the model; (2,1,all), (2,2,<=2), (3,0,all) end in `unknown` after 25 min
    for T, d, P in cfgs:
        obs.append(BmcOb(f"C20.bmc.t{T}.d{d}.{'all' if P is None else 'p' + str(P)}", T, d, P, 300 if tier == "quick" else 3000))
    return obs
