"""Shared step harness for the spec-class properties C01 / C03 / C04 (one real operation from vf.specops, property-
specific assertions). Each property's harness module lists its own obligations; a check asserts only its own property."""
from typing import List

from vf.grammar import FAMILIES, TYPES
from vf.harness.c15 import conforms
from vf.snapshot import MISSING_MARK, describe, read, same, snap, spec_attrs
from vf.specops import (
    CallbackFail,
    build_k1,
    build_k2,
    build_k2_sets,
    build_k3,
    build_k4,
    build_k5,
    k1_ops,
    k2_ops,
    k2_set_ops,
    k3_ops,
    k4_ops,
    k5_ops,
)
from vf.sym import Violation, assume, check


def invariant(v, where, tag):
    """every managed attribute (recursively) either has no value or conforms to its declared type."""
    sa = spec_attrs(v)
    if sa is None:
        return
    cname = next(c.__name__ for c in type(v).__mro__ if c.__name__ in TYPES)
    for a in sa[0]:
        val = read(v, a)
        if val is MISSING_MARK:
            continue
        T = TYPES[cname][a]
        if isinstance(T, str):
            check(type(val).__name__ == T or any(c.__name__ == T for c in type(val).__mro__), "managed attribute conforms to its annotation", f"{tag}/nonconforming-{cname}.{a}", lambda: f"{where}: {val!r}")
            invariant(val, where, tag)
        elif isinstance(T, tuple):
            kind = T[0]
            elems = list(val.values()) if kind == "dict" else list(val)
            if kind == "dict":
                check(isinstance(val, dict) and all(isinstance(k, T[1]) for k in val), "dict keys conform", f"{tag}/nonconforming-key-{cname}.{a}", lambda: f"{where}: {val!r}")
            elif kind == "list":
                check(isinstance(val, list), "container type", f"{tag}/nonconforming-{cname}.{a}", lambda: f"{where}: {val!r}")
            elif kind in ("klist", "kset"):
                check(type(val).__name__ == {"klist": "KeyedList", "kset": "KeyedSet"}[kind], "container type", f"{tag}/nonconforming-container-{cname}.{a}", lambda: f"{where}: {type(val).__name__} {val!r}")
            for x in elems:
                check(any(c.__name__ == T[-1] for c in type(x).__mro__), "container element conforms", f"{tag}/nonconforming-elem-{cname}.{a}", lambda: f"{where}: {x!r}")
                invariant(x, where, tag)
        else:
            check(conforms(val, T), "managed attribute conforms to its annotation", f"{tag}/nonconforming-{cname}.{a}", lambda: f"{where}: {cname}.{a} = {val!r}")


def _restore_process_state():
    """Process-global state outlives a path of the exploration: a fault injected between the statements of the module-copy
    protection itself (the recorded C20 finding) leaves the ModuleType entry in copyreg.dispatch_table and a non-zero
    reference count behind, and every LATER path of the same worker then executes fewer statements there than a fresh
    interpreter does (the k-th statement drifts; reported by the witness cross-check). Put both back before each path."""
    import copyreg
    import types

    copyreg.dispatch_table.pop(types.ModuleType, None)
    try:
        from spec_classes.utils import mutation

        for v in list(vars(mutation).values()):
            inst = getattr(v, "__instance__", None) if isinstance(v, type) else None
            if inst is not None and hasattr(inst, "refcount"):
                inst.refcount = 0
                inst.patched_table = False
    except Exception:  # a seeded change may have renamed these: nothing to restore then
        pass


def make(prop, fam, tmpl, opname, attr=None, conform=True, inplace_mode="sym", fault=0, fault_shard=None):
    """prop in {"C01","C03","C04"}; inplace_mode: "sym" (symbolic), False, True."""
    NS = FAMILIES[fam]

    def h(n: int, e: List[int], x0: int, n0: int, s0: str, i0: int, xset: bool, i: int, i1: int, i2: int, s1: str, b1: bool, sel3: int, fk: int, bad: int, k: int, keyok: bool, inplace: bool, kf: int) -> str:
        P = dict(n=n, e=e, x0=x0, n0=n0, s0=s0, i0=i0, i=i, i1=i1, i2=i2, s1=s1, b1=b1, sel3=sel3, fk=fk, bad=bad, k=k, keyok=keyok, inner_set=bool(xset))
        ip = bool(inplace) if inplace_mode == "sym" else inplace_mode
        if prop == "C01":
            ip = False
        tag = f"{prop}/{tmpl}/{opname}" + (f".{attr}" if attr else "")
        if tmpl == "K1":
            o, by = build_k1(NS, P, bool(xset)), build_k1(NS, P, True)
            if opname in ("setattr", "delattr"):
                assume(ip)
            if opname in ("transform_identity_kw", "transform_other_kw"):
                assume(bool(xset))
            if opname in ("delattr", "reset") and attr == "x":
                assume(bool(xset))
            if opname in ("transform", "transform2"):
                assume(bool(xset))
            P["other"] = build_k1(NS, P, True)
            op = k1_ops(opname, attr, P, ip, conform)
            op.must_raise = getattr(op, "must_raise", (not conform) or op.effect is None)
        elif tmpl == "K2":
            assume(len(e) == 2)
            o, by = build_k2(NS, P), build_k2(NS, P)
            if opname.startswith("setattr"):
                assume(ip)
            op = k2_ops(opname, P, ip, conform)
        elif tmpl == "K2S":
            assume(len(e) == 2)
            o, by = build_k2_sets(NS, P), build_k2_sets(NS, P)
            op = k2_set_ops(opname, P, ip, conform)
        elif tmpl == "K3":
            o, by = build_k3(NS, P, bool(xset)), build_k3(NS, P, True)
            if opname.startswith("setattr"):
                assume(ip)
            op = k3_ops(NS, opname, attr, P, ip)
            op.must_raise = opname.endswith("_bad")
        elif tmpl == "K4":
            o, by = build_k4(NS, P), build_k4(NS, P)
            if opname.startswith("setattr"):
                assume(ip)
            if opname.startswith("ctor"):
                assume(not ip)
            if opname == "setitem_dup":
                assume(ip)
            op = k4_ops(NS, opname, P, ip, conform)
        elif tmpl == "K5":
            o, by = build_k5(NS, P), build_k5(NS, P)
            if opname.startswith("setattr"):
                assume(ip)
            if opname.endswith("_unset"):
                assume(ip)
            op = k5_ops(NS, opname, P, ip)
            op.must_raise = False
        else:
            raise AssertionError(tmpl)
        tag = tag + (f"/{op.note}" if op.note else "")
        s_o, s_by = snap(o), snap(by)  # reads every attribute and property first (cache fills are not changes)
        cache_before = {n: (n in getattr(o, "__dict__", {})) for n in ("p",)} if tmpl == "K5" else {}
        s_args = [snap(a) for a in op.args]
        if fault:
            # E2-fault: an exception injected at the kf-th executed statement of library code (symbolic kf)
            from vf import instrument

            assume(0 <= kf <= fault)  # kf == 0: no fault (also used by the warm-up to build lazily generated methods first)
            _restore_process_state()
            if fault_shard is not None and kf != 0:
                assume(kf % fault_shard[1] == fault_shard[0])  # shards partition the abort points for parallelism
            if kf != 0:
                instrument.arm(kf, "fault")
        try:
            r = op.call(o)
            exc = None
        except Violation:
            raise
        except Exception as ex:
            r, exc = None, ex
        finally:
            if fault:
                from vf import instrument

                instrument.disarm()

        if prop == "C01" and tmpl == "K5":
            for n_, was in cache_before.items():
                check((n_ in o.__dict__) == was, "every cached derived value reachable from the receiver is the same before and after", f"{tag}/receiver-cache-{'dropped' if was else 'filled'}-{n_}", lambda: f"{op.name}")
        if prop == "C01":
            check(same(snap(o), s_o), "a helper called without _inplace=True never changes the receiver (same object graph, equal contents), whether it returns or raises", f"{tag}/receiver-changed-{'raise' if exc else 'return'}", lambda: f"{op.name}: before {describe(s_o)} after {describe(snap(o))} exc={exc!r}")
            for a, sa_ in zip(op.args, s_args):
                check(same(snap(a), sa_), "objects passed in as arguments are never modified", f"{tag}/argument-changed", lambda: f"{op.name}: {describe(sa_)} -> {describe(snap(a))}")
            if fault:
                from vf.instrument import InjectedFault

                return "fault-injected" if isinstance(exc, InjectedFault) else ("raised" if exc else "completed-before-fault")
            return "raised" if exc else "returned"
        if prop == "C04":
            if exc is None:
                return "returned"
            check(same(snap(o), s_o), "an operation that raises leaves the receiver, its nested values and containers exactly as before", f"{tag}/receiver-changed-{'inplace' if ip else 'copy'}", lambda: f"{op.name} raised {exc!r}: before {describe(s_o)} after {describe(snap(o))}")
            for a, sa_ in zip(op.args, s_args):
                check(same(snap(a), sa_), "an operation that raises leaves the arguments as before", f"{tag}/argument-changed", lambda: f"{op.name}: {describe(sa_)} -> {describe(snap(a))}")
            check(same(snap(by), s_by), "an operation that raises leaves other instances as before", f"{tag}/bystander-changed")
            return "raised:" + type(exc).__name__
        if prop == "C03":
            invariant(o, "receiver", tag)
            if r is not None:
                invariant(r, "result", tag)
            if getattr(op, "must_raise", False):
                check(exc is not None, "an operation that would establish a non-conforming value raises TypeError or ValueError instead of storing it", f"{tag}/ill-typed-accepted", lambda: f"{op.name} args {op.args!r}")
                check(isinstance(exc, (TypeError, ValueError, IndexError, KeyError, CallbackFail)), "raises TypeError or ValueError", f"{tag}/wrong-exception-{type(exc).__name__}", lambda: repr(exc))
            return "raised" if exc else "returned"
        raise AssertionError(prop)

    h.__name__ = f"{prop}_{tmpl}_{opname}_{attr}_{'c' if conform else 'nc'}"
    return h


def warm(tmpl, fault=False):
    out = []
    if fault:
        # first run every variant WITHOUT a fault so that lazily built library state (generated methods, cached
        # properties) exists before any fault is injected; otherwise statement counts differ between runs
        out = [w[:-1] + (0,) for w in warm(tmpl)]
        return out + warm(tmpl)
    for n in (0, 1, 2):
        for i in (-1, 0, 2):
            for fk in (0, 1, 2, 3):
                for ip in (False, True):
                    out.append((n, [1, 2], 3, 4, "s", 5, n != 0, i, 6, 7, "t", fk % 2 == 0, fk % 3, fk, fk, n, True, ip, 10 + 37 * fk + i))
    return out


K1_MATRIX = [("with", a) for a in ("x", "n", "s", "o", "u", "lit", "f")] + [("setattr", a) for a in ("x", "s", "u", "lit")] + [("transform", a) for a in ("x", "s")] + [("reset", a) for a in ("x", "n")] + [("delattr", "x"), ("delattr", "s"), ("reset_all", "n"), ("update2", "n"), ("transform2", "n"), ("update_unknown", "n"), ("transform_identity_kw", "n"), ("transform_other_kw", "n")]
