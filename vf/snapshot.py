"""Deep identity + content snapshots through public reads (DESIGN.md 3.3).

snap(v) returns a nested structure; same(a, b) compares two snapshots: identical kinds, identical ids for every
mutable node, equal contents. Leaves are compared with `is` first so identical symbolic values cost no solver fork.
Spec instances are recognised through vf.grammar.ATTRS (by class name), never through library metadata.
"""
import types

from vf.grammar import ATTRS, PROPS

IMMUTABLE = (type(None), bool, int, float, str, bytes, type, types.FunctionType, types.ModuleType, types.BuiltinFunctionType, types.MethodType)


class Missing:
    def __repr__(self):
        return "<missing>"


MISSING_MARK = Missing()


LOCAL = {}  # classes declared inside harness modules: id(class) -> (attrs, props)


def register(cls, attrs, props=()):
    """make an ad-hoc harness class known to the snapshot / id walkers"""
    LOCAL[cls] = (list(attrs), list(props))
    return cls


def spec_attrs(v):
    for c in type(v).__mro__:
        if c in LOCAL:
            return LOCAL[c]
    for c in type(v).__mro__:
        if c.__name__ in ATTRS and hasattr(c, "__spec_class__"):
            return ATTRS[c.__name__], PROPS.get(c.__name__, [])
    return None


def read(v, attr):
    try:
        return getattr(v, attr)
    except AttributeError:
        return MISSING_MARK


def snap(v, depth=0):
    if v is MISSING_MARK:
        return ("missing",)
    if isinstance(v, IMMUTABLE):
        return ("leaf", v)
    if depth > 8:
        return ("deep", id(v))
    sa = spec_attrs(v)
    if sa is not None:
        attrs, props = sa
        return ("spec", id(v), type(v).__name__, [(a, snap(read(v, a), depth + 1)) for a in attrs], [(p, snap(read(v, p), depth + 1)) for p in props])
    if isinstance(v, dict):
        return ("dict", id(v), [(snap(k, depth + 1), snap(x, depth + 1)) for k, x in v.items()])
    if isinstance(v, (set, frozenset)):
        return ("set", id(v), list(v))
    if isinstance(v, tuple):
        return ("tuple", [snap(x, depth + 1) for x in v])
    if hasattr(v, "__iter__") and hasattr(v, "__len__"):  # list, KeyedList, KeyedSet, ...
        items = [snap(x, depth + 1) for x in v]
        if hasattr(v, "keys") and hasattr(v, "index_for_key") or hasattr(v, "enforce_item_equivalence"):
            # keyed containers: the key view is part of the observable state
            items = items + [("leaf", ("keys", tuple(str(k) for k in v.keys())))]
        return ("seq", id(v), type(v).__name__, items)
    return ("obj", id(v))


def leaf_same(a, b):
    return a is b or (type(a) is type(b) and a == b) or (isinstance(a, (int, float)) and isinstance(b, (int, float)) and not isinstance(a, bool) and not isinstance(b, bool) and a == b)


def same(a, b, ids=True):
    """ids=False compares contents only (abstract state)."""
    if a[0] != b[0]:
        return False
    k = a[0]
    if k == "missing":
        return True
    if k == "leaf":
        return leaf_same(a[1], b[1])
    if k in ("deep", "obj"):
        return a[1] == b[1] if ids else True
    if k == "spec":
        if ids and a[1] != b[1]:
            return False
        if a[2] != b[2]:
            return False
        return _pairs_same(a[3], b[3], ids) and _pairs_same(a[4], b[4], ids)
    if k == "dict":
        if ids and a[1] != b[1]:
            return False
        if len(a[2]) != len(b[2]):
            return False
        return all(same(ka, kb, ids) and same(va, vb, ids) for (ka, va), (kb, vb) in zip(a[2], b[2]))
    if k == "set":
        if ids and a[1] != b[1]:
            return False
        return len(a[2]) == len(b[2]) and all(any(leaf_same(x, y) for y in b[2]) for x in a[2])
    if k == "tuple":
        return len(a[1]) == len(b[1]) and all(same(x, y, ids) for x, y in zip(a[1], b[1]))
    if k == "seq":
        if ids and a[1] != b[1]:
            return False
        if a[2] != b[2] or len(a[3]) != len(b[3]):
            return False
        return all(same(x, y, ids) for x, y in zip(a[3], b[3]))
    raise AssertionError(k)


def _pairs_same(pa, pb, ids):
    return len(pa) == len(pb) and all(na == nb and same(sa, sb, ids) for (na, sa), (nb, sb) in zip(pa, pb))


def mutable_ids(v, acc=None, depth=0):
    """ids of every mutable node reachable through attributes and public iteration."""
    if acc is None:
        acc = {}
    if v is MISSING_MARK or isinstance(v, IMMUTABLE) or depth > 8:
        return acc
    sa = spec_attrs(v)
    if sa is not None:
        if id(v) in acc:
            return acc
        acc[id(v)] = v
        for a in list(sa[0]) + list(sa[1]):  # managed attributes and cached derived values
            mutable_ids(read(v, a), acc, depth + 1)
        return acc
    if isinstance(v, dict):
        if id(v) in acc:
            return acc
        acc[id(v)] = v
        for k, x in v.items():
            mutable_ids(k, acc, depth + 1)
            mutable_ids(x, acc, depth + 1)
        return acc
    if isinstance(v, tuple):
        for x in v:
            mutable_ids(x, acc, depth + 1)
        return acc
    if isinstance(v, (set, frozenset)):
        acc[id(v)] = v
        return acc
    if hasattr(v, "__iter__") and hasattr(v, "__len__"):
        if id(v) in acc:
            return acc
        acc[id(v)] = v
        for x in v:
            mutable_ids(x, acc, depth + 1)
        return acc
    acc[id(v)] = v
    return acc


def describe(s, depth=0):
    """short human-readable rendering of a snapshot (only used in failure details)."""
    k = s[0]
    if k == "leaf":
        return repr(s[1])
    if k == "missing":
        return "<missing>"
    if k == "spec":
        return f"{s[2]}@{s[1] % 10000}(" + ", ".join(f"{n}={describe(x)}" for n, x in s[3]) + ")"
    if k == "dict":
        return f"dict@{s[1] % 10000}{{" + ", ".join(f"{describe(a)}: {describe(b)}" for a, b in s[2]) + "}"
    if k == "set":
        return f"set@{s[1] % 10000}{s[2]!r}"
    if k == "tuple":
        return "(" + ", ".join(describe(x) for x in s[1]) + ")"
    if k == "seq":
        return f"{s[2]}@{s[1] % 10000}[" + ", ".join(describe(x) for x in s[3]) + "]"
    return f"<{k}>"
