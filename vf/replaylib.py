"""CrossHair-free helpers: argument (de)serialisation and concrete execution of a harness."""
import math
import traceback

from vf.sym import Skip, Violation

# --------------------------------------------------------------------------------------
# JSON encoding of realised arguments


def enc(v):
    if isinstance(v, bool) or v is None or isinstance(v, str):
        return v
    if isinstance(v, int):
        return int(v)
    if isinstance(v, float):
        if math.isnan(v) or math.isinf(v):
            return {"__float__": repr(v)}
        return float(v)
    if isinstance(v, (list, tuple)):
        return [enc(x) for x in v]
    if isinstance(v, dict):
        return {"__dict__": [[enc(k), enc(x)] for k, x in v.items()]}
    raise TypeError(f"cannot encode {type(v)}")


def dec(v):
    if isinstance(v, list):
        return [dec(x) for x in v]
    if isinstance(v, dict):
        if "__float__" in v:
            return float(v["__float__"])
        if "__dict__" in v:
            return {dec(k): dec(x) for k, x in v["__dict__"]}
    return v


# --------------------------------------------------------------------------------------
# concrete execution of a harness (warm-up, witness re-execution, replay)


def run_concrete(fn, args, known):
    """Returns (outcome_class, violation_or_None). Never raises for harness-level outcomes."""
    try:
        out = fn(*args)
        return str(out), None
    except Skip:
        return "skip", None
    except Violation as v:
        if v.sig in known:
            return f"known:{v.sig}", None
        return f"VIOLATION:{v.sig}", {"clause": v.clause, "sig": v.sig, "detail": str(v.detail)[:500]}
    except Exception as e:  # unexpected exception inside the harness = counterexample too
        tb = traceback.format_exc(limit=6)
        sig = f"unexpected-exception/{type(e).__name__}"
        if sig in known:
            return f"known:{sig}", None
        return f"VIOLATION:{sig}", {"clause": "no unexpected exception", "sig": sig, "detail": (repr(e) + "\n" + tb)[-1500:]}


