"""property id -> harness modules (each exposes obligations(tier) -> [Ob])."""
REGISTRY = {
    "C13": ["vf.harness.c13"],
    "C14": ["vf.harness.c14"],
    "C15": ["vf.harness.c15"],
}
