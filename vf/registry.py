"""property id -> harness modules (each exposes obligations(tier) -> [Ob])."""
REGISTRY = {
    "C06": ["vf.harness.c06"],
    "C10": ["vf.harness.c10"],
    "C12": ["vf.harness.c12"],
    "C13": ["vf.harness.c13"],
    "C14": ["vf.harness.c14"],
    "C15": ["vf.harness.c15"],
    "C18": ["vf.harness.c18"],
}
