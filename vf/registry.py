"""property id -> harness modules (each exposes obligations(tier) -> [Ob])."""
REGISTRY = {
    "C01": ["vf.harness.c01"],
    "C02": ["vf.harness.c02"],
    "C03": ["vf.harness.c03"],
    "C04": ["vf.harness.c04"],
    "C05": ["vf.harness.c05"],
    "C06": ["vf.harness.c06"],
    "C07": ["vf.harness.c07"],
    "C10": ["vf.harness.c10"],
    "C12": ["vf.harness.c12"],
    "C13": ["vf.harness.c13"],
    "C14": ["vf.harness.c14"],
    "C15": ["vf.harness.c15"],
    "C18": ["vf.harness.c18"],
}
