"""property id -> harness modules (each exposes obligations(tier) -> [Ob])."""
REGISTRY = {
    "C13": ["vf.harness.c13"],
}
