"""E3 — z3 bounded model checking of the copy-protection context manager, extracted from the source on every run.

translate(): parses spec_classes/utils/mutation.py with `ast`, finds the class used as context manager in
protect_via_deepcopy and compiles __new__/__init__/__enter__/__exit__ into guarded commands, one per source statement
(the granularity of "preemption at any line"). Unsupported statement forms raise Untranslatable -> the obligation is
inconclusive, never a pass.

State (bit-vectors of width 8): objects allocated by __new__ (fields found in the source, e.g. lock / refcount /
patched_table), the class attribute holding the singleton, copyreg.dispatch_table[ModuleType] present?/ours?, lock
owner+count per lock, per thread: pc, region depth, self, locals, held lock.

A thread's program is protect_via_deepcopy nested `depth` times:  Cls(); __enter__; USE; [nested...; USE]; __exit__
where USE is the abstract step "the deep copy needs the table entry".

check(nthreads, depth, max_preempt): assertions (a) whenever every thread is outside the protected region the table is
in its initial state, (b) no USE with the entry absent, (c) no failing step (deleting an absent entry, releasing a lock
not held), (d) no deadlock. unsat = holds for every schedule within the bound; sat = a schedule (list of
(thread, op, line)).
"""
import ast
import time

import z3

W = 8
MISSING_V, PRESENT_V = 249, 1  # values of `dispatch_table.get(ModuleType, MISSING)`


class Untranslatable(Exception):
    pass


def BV(n):
    return z3.BitVec(n, W)


def BVV(v):
    return z3.BitVecVal(v, W)


# ---------------------------------------------------------------------------------------------------------------------
# extraction


def find_cm_class(tree):
    fn = next(n for n in tree.body if isinstance(n, ast.FunctionDef) and n.name == "protect_via_deepcopy")
    w = next((n for n in ast.walk(fn) if isinstance(n, ast.With)), None)
    if w is None:
        raise Untranslatable("protect_via_deepcopy has no with-statement")
    call = w.items[0].context_expr
    if isinstance(call, ast.Name):  # `cm = Cls()` ... `with cm:`
        asg = [n for n in ast.walk(fn) if isinstance(n, ast.Assign) and len(n.targets) == 1 and isinstance(n.targets[0], ast.Name) and n.targets[0].id == call.id]
        if len(asg) != 1:
            raise Untranslatable("context manager object is not assigned exactly once")
        call = asg[0].value
    if not (isinstance(call, ast.Call) and isinstance(call.func, ast.Name) and not call.args and not call.keywords):
        raise Untranslatable("with-item is not a plain class call")
    return next(n for n in tree.body if isinstance(n, ast.ClassDef) and n.name == call.func.id)


def expr(e, selfname):
    if isinstance(e, ast.Constant):
        if isinstance(e.value, (bool, int)):
            return ("const", int(e.value))
        raise Untranslatable(ast.unparse(e))
    if isinstance(e, ast.Name):
        if e.id == "MISSING":
            return ("const", MISSING_V)
        return ("local", e.id)
    if isinstance(e, ast.Attribute) and isinstance(e.value, ast.Name):
        base = e.value.id
        if base == selfname and selfname == "cls":
            return ("clsattr", e.attr)
        if base == selfname:
            return ("field", ("self",), e.attr)
        return ("field", ("local", base), e.attr)
    if isinstance(e, ast.UnaryOp) and isinstance(e.op, ast.Not):
        return ("not", expr(e.operand, selfname))
    if isinstance(e, ast.BoolOp):
        return ("and" if isinstance(e.op, ast.And) else "or", [expr(v, selfname) for v in e.values])
    if isinstance(e, ast.Compare) and len(e.ops) == 1:
        name = {ast.Eq: "==", ast.NotEq: "!=", ast.Lt: "<", ast.LtE: "<=", ast.Gt: ">", ast.GtE: ">=", ast.Is: "==", ast.IsNot: "!="}.get(type(e.ops[0]))
        if name is None:
            if isinstance(e.ops[0], (ast.In, ast.NotIn)) and ast.unparse(e.left) == "ModuleType" and ast.unparse(e.comparators[0]) == "copyreg.dispatch_table":
                return ("table_has",) if isinstance(e.ops[0], ast.In) else ("not", ("table_has",))
            raise Untranslatable(ast.unparse(e))
        return (name, expr(e.left, selfname), expr(e.comparators[0], selfname))
    if isinstance(e, ast.Call):
        f = e.func
        if isinstance(f, ast.Name) and f.id == "hasattr" and isinstance(e.args[0], ast.Name) and isinstance(e.args[1], ast.Constant):
            return ("hasattr_cls", e.args[1].value)
        if isinstance(f, ast.Name) and f.id in ("RLock", "Lock"):
            return ("newlock",)
        if isinstance(f, ast.Attribute) and f.attr == "get" and ast.unparse(f.value) == "copyreg.dispatch_table" and ast.unparse(e.args[0]) == "ModuleType" and len(e.args) == 2 and ast.unparse(e.args[1]) == "MISSING":
            return ("table_get",)
        if isinstance(f, ast.Attribute) and f.attr == "__new__" and ast.unparse(f.value) == "super()":
            return ("alloc",)
    raise Untranslatable(ast.unparse(e))


def compile_body(body, selfname, code, depth=0):
    for st in body:
        line = st.lineno
        if isinstance(st, ast.Expr) and isinstance(st.value, ast.Constant):
            continue  # docstring
        if isinstance(st, ast.Pass):
            continue
        if isinstance(st, ast.Assign) and len(st.targets) == 1:
            t = st.targets[0]
            if isinstance(t, ast.Attribute) and isinstance(t.value, ast.Name):
                base = t.value.id
                if base == "cls" and selfname == "cls":
                    code.append(("set_clsattr", t.attr, expr(st.value, selfname), line))
                elif base == selfname:
                    code.append(("set_field", ("self",), t.attr, expr(st.value, selfname), line))
                else:
                    code.append(("set_field", ("local", base), t.attr, expr(st.value, selfname), line))
                continue
            if isinstance(t, ast.Name):
                code.append(("set_local", t.id, expr(st.value, selfname), line))
                continue
            if isinstance(t, ast.Subscript) and ast.unparse(t.value) == "copyreg.dispatch_table" and ast.unparse(t.slice) == "ModuleType":
                code.append(("table_set", line))
                continue
            raise Untranslatable(ast.unparse(st))
        if isinstance(st, ast.AugAssign) and isinstance(st.target, ast.Attribute) and isinstance(st.target.value, ast.Name) and isinstance(st.value, ast.Constant) and isinstance(st.op, (ast.Add, ast.Sub)):
            d = st.value.value if isinstance(st.op, ast.Add) else -st.value.value
            base = st.target.value.id
            obj = ("self",) if base == selfname else ("local", base)
            code.append(("add_field", obj, st.target.attr, d, line))
            continue
        if isinstance(st, ast.Delete) and len(st.targets) == 1 and ast.unparse(st.targets[0]) == "copyreg.dispatch_table[ModuleType]":
            code.append(("table_del", line))
            continue
        if isinstance(st, ast.If):
            j = len(code)
            code.append(None)
            compile_body(st.body, selfname, code, depth)
            if st.orelse:
                k = len(code)
                code.append(None)
                code[j] = ("branch", expr(st.test, selfname), len(code), line)
                compile_body(st.orelse, selfname, code, depth)
                code[k] = ("jump", len(code), line)
            else:
                code[j] = ("branch", expr(st.test, selfname), len(code), line)
            continue
        if isinstance(st, ast.With) and len(st.items) == 1 and st.items[0].optional_vars is None:
            if depth > 0:
                raise Untranslatable("nested with-statements")
            code.append(("acquire", expr(st.items[0].context_expr, selfname), line))
            compile_body(st.body, selfname, code, depth + 1)
            code.append(("release", st.end_lineno))
            continue
        if isinstance(st, ast.Return):
            if depth > 0:
                raise Untranslatable("return inside with")
            code.append(("ret", expr(st.value, selfname) if st.value is not None else None, line))
            continue
        raise Untranslatable(ast.unparse(st))


def compile_function(fn, cls_name):
    """protect_via_deepcopy -> pseudo-ops: ("call_new", local) | ("enter", local) | ("exit", local) | ("use",) |
    ("branch", expr, target) | ("jump", target) | ("end",).  Locals are per nesting level (suffix added later)."""
    code = []

    def is_cm_call(e):
        return isinstance(e, ast.Call) and isinstance(e.func, ast.Name) and e.func.id == cls_name and not e.args and not e.keywords

    def is_copy_return(st):
        return isinstance(st, ast.Return) and isinstance(st.value, ast.Call) and ast.unparse(st.value.func) in ("copy.deepcopy", "deepcopy")

    def body(stmts, in_with):
        for idx, st in enumerate(stmts):
            line = st.lineno
            if isinstance(st, ast.Expr) and isinstance(st.value, ast.Constant):
                continue
            if isinstance(st, ast.If) and isinstance(st.test, ast.Call) and isinstance(st.test.func, ast.Name) and st.test.func.id == "isinstance" and all(isinstance(x, ast.Return) for x in st.body) and not st.orelse:
                continue  # immutable / module fast path: the values considered here are containers
            if isinstance(st, ast.Assign) and len(st.targets) == 1 and isinstance(st.targets[0], ast.Name) and is_cm_call(st.value):
                code.append(("call_new", st.targets[0].id, line))
                continue
            if isinstance(st, ast.If):
                j = len(code)
                code.append(None)
                body(st.body, in_with)
                if st.orelse:
                    k = len(code)
                    code.append(None)
                    code[j] = ("fbranch", expr(st.test, "$none"), len(code), line)
                    body(st.orelse, in_with)
                    code[k] = ("fjump", len(code), line)
                else:
                    code[j] = ("fbranch", expr(st.test, "$none"), len(code), line)
                continue
            if isinstance(st, ast.With) and len(st.items) == 1 and st.items[0].optional_vars is None:
                if in_with:
                    raise Untranslatable("nested with in protect_via_deepcopy")
                ce = st.items[0].context_expr
                if is_cm_call(ce):
                    name = "$cm"
                    code.append(("call_new", name, line))
                elif isinstance(ce, ast.Name):
                    name = ce.id
                else:
                    raise Untranslatable(ast.unparse(ce))
                code.append(("enter", name, line))
                if not (st.body and is_copy_return(st.body[-1]) and not any(isinstance(x, ast.Return) for b in st.body[:-1] for x in ast.walk(b))):
                    raise Untranslatable("with-body of protect_via_deepcopy must end with `return copy.deepcopy(...)`")
                body(st.body[:-1], True)
                code.append(("use", line))
                code.append(("exit", name, st.end_lineno))
                code.append(("freturn", line))
                continue
            if is_copy_return(st):
                if in_with:
                    raise Untranslatable("unexpected return inside with")
                code.append(("use", line))
                code.append(("freturn", line))
                continue
            raise Untranslatable(f"protect_via_deepcopy: {ast.unparse(st)[:80]}")

    body(fn.body, False)
    code.append(("fend", 0))
    return code


def translate(path):
    tree = ast.parse(open(path).read())
    cls = find_cm_class(tree)
    methods, cls_locks = {}, []
    for m in cls.body:
        if isinstance(m, ast.FunctionDef):
            if m.name not in ("__new__", "__init__", "__enter__", "__exit__"):
                continue
            code = []
            compile_body(m.body, m.args.args[0].arg, code)
            methods[m.name] = code
        elif isinstance(m, ast.Assign) and isinstance(m.value, ast.Call) and isinstance(m.value.func, ast.Name) and m.value.func.id in ("RLock", "Lock"):
            cls_locks.append(m.targets[0].id)
        elif isinstance(m, ast.Expr) and isinstance(m.value, ast.Constant):
            continue
        else:
            raise Untranslatable(f"class-level statement: {ast.unparse(m)[:60]}")
    if "__enter__" not in methods or "__exit__" not in methods:
        raise Untranslatable("context manager without __enter__/__exit__")
    fn = next(n for n in tree.body if isinstance(n, ast.FunctionDef) and n.name == "protect_via_deepcopy")
    methods["$function"] = compile_function(fn, cls.name)
    return cls.name, methods, cls_locks


def relocate(code, base):
    out = []
    for ins in code:
        if ins[0] == "branch":
            out.append(("branch", ins[1], ins[2] + base, ins[3]))
        elif ins[0] == "jump":
            out.append(("jump", ins[1] + base, ins[2]))
        else:
            out.append(ins)
    return out


def thread_program(methods, depth):
    """the thread's program: the compiled body of protect_via_deepcopy with the class's methods inlined; every
    `copy.deepcopy` is the abstract step USE, inside which the function is re-entered `depth` times."""
    prog = []
    fcode = methods["$function"]

    def emit(code, kind):
        base = len(prog)
        end = base + len(code)
        for ins in relocate(code, base):
            if ins[0] == "ret":
                if kind == "new":
                    prog.append(("ret_self", ins[1], end, ins[2]))
                else:
                    prog.append(("jump", end, ins[2]))
            else:
                prog.append(ins)

    def loc(name, d):
        return f"{name}@{d}"

    def rename(e, d):
        """function-level locals are per nesting level"""
        if isinstance(e, tuple):
            if e and e[0] == "local":
                return ("local", loc(e[1], d))
            return tuple(rename(x, d) for x in e)
        if isinstance(e, list):
            return [rename(x, d) for x in e]
        return e

    def pvd(d):
        prog.append(("enter_region", 0))
        start = len(prog)
        patches = []  # (index in prog, kind, target index in fcode)
        fpos = {}  # fcode index -> prog index
        returns = []
        for fi, ins in enumerate(fcode):
            fpos[fi] = len(prog)
            op = ins[0]
            if op == "call_new":
                if "__new__" in methods:
                    emit(methods["__new__"], "new")
                else:
                    prog.append(("alloc_self", 0))
                if "__init__" in methods:
                    emit(methods["__init__"], "init")
                prog.append(("set_local_from_self", loc(ins[1], d), ins[2]))
            elif op == "enter":
                prog.append(("set_self_from_local", loc(ins[1], d), ins[2]))
                emit(methods["__enter__"], "enter")
            elif op == "exit":
                prog.append(("set_self_from_local", loc(ins[1], d), ins[2]))
                emit(methods["__exit__"], "exit")
            elif op == "use":
                prog.append(("use", 0))
                if d > 0:
                    pvd(d - 1)
                    prog.append(("use", 0))
            elif op == "fbranch":
                patches.append((len(prog), "branch", ins[2], rename(ins[1], d), ins[3]))
                prog.append(None)
            elif op == "fjump":
                patches.append((len(prog), "jump", ins[1], None, ins[2]))
                prog.append(None)
            elif op == "freturn":
                returns.append(len(prog))
                prog.append(None)
            elif op == "fend":
                pass
            else:
                raise Untranslatable(op)
        end = len(prog)
        for idx, kind, target, e, line in patches:
            prog[idx] = ("branch", e, fpos[target], line) if kind == "branch" else ("jump", fpos[target], line)
        for idx in returns:
            prog[idx] = ("jump", end, 0)
        prog.append(("leave_region", 0))

    pvd(depth)
    return prog


# ---------------------------------------------------------------------------------------------------------------------
# BMC


NO_LINE_EVENT = ("release", "jump", "enter_region", "leave_region", "alloc_self", "fjump", "fend")


def check(methods, cls_locks, nthreads, depth, max_preempt=None, timeout_s=300, prefix=None, fix_init=None, goal="violation", replayable=False):
    """replayable=True restricts thread switches to points where the descheduled thread is about to start a new source
    line (the only points at which the real-thread replay's line tracer can stop a thread); used to look for a
    counterexample that can be replayed exactly when the unrestricted one could only be replayed approximately."""
    progs = [thread_program(methods, depth) for _ in range(nthreads)]
    fields = sorted({ins[2] for p in progs for ins in p if ins[0] in ("set_field", "add_field")})
    locals_ = sorted({ins[1] for p in progs for ins in p if ins[0] in ("set_local", "set_local_from_self", "set_self_from_local")})
    clsattrs = sorted({ins[1] for p in progs for ins in p if ins[0] == "set_clsattr"} | set(cls_locks))
    nobj = max(1, nthreads * (depth + 1))
    nlock = len(cls_locks) + nobj
    N = sum(len(p) for p in progs)
    s = z3.Solver()
    s.set("timeout", int(timeout_s * 1000))

    def mk(t):
        st = {"table": z3.Bool(f"table_{t}"), "bad": z3.Bool(f"bad_{t}"), "nobj": BV(f"nobj_{t}"), "nlock": BV(f"nlock_{t}")}
        for c in clsattrs:
            st["c_" + c] = BV(f"c_{c}_{t}")
            st["hc_" + c] = z3.Bool(f"hc_{c}_{t}")
        for o in range(nobj):
            for f in fields:
                st[f"f{o}_{f}"] = BV(f"f{o}_{f}_{t}")
        for i in range(nthreads):
            st[f"pc{i}"] = BV(f"pc{i}_{t}")
            st[f"rd{i}"] = BV(f"rd{i}_{t}")
            st[f"self{i}"] = BV(f"self{i}_{t}")
            st[f"held{i}"] = BV(f"held{i}_{t}")
            for l in locals_:
                st[f"l{i}_{l}"] = BV(f"l{i}_{l}_{t}")
        for k in range(nlock):
            st[f"own{k}"] = BV(f"own{k}_{t}")
            st[f"cnt{k}"] = BV(f"cnt{k}_{t}")
        return st

    S = [mk(t) for t in range(N + 1)]
    sched = [BV(f"s_{t}") for t in range(N)]
    init_table = z3.Bool("init_table")
    NONE = 255
    s0 = S[0]
    s.add(s0["table"] == init_table, s0["bad"] == False, s0["nobj"] == 0, s0["nlock"] == len(cls_locks))  # noqa: E712
    for c in clsattrs:
        if c in cls_locks:
            s.add(s0["c_" + c] == cls_locks.index(c), s0["hc_" + c] == True)  # noqa: E712
        else:
            s.add(s0["c_" + c] == NONE, s0["hc_" + c] == False)  # noqa: E712
    for o in range(nobj):
        for f in fields:
            s.add(s0[f"f{o}_{f}"] == 0)
    for i in range(nthreads):
        s.add(s0[f"pc{i}"] == 0, s0[f"rd{i}"] == 0, s0[f"self{i}"] == NONE, s0[f"held{i}"] == NONE)
        for l in locals_:
            s.add(s0[f"l{i}_{l}"] == 0)
    for k in range(nlock):
        s.add(s0[f"own{k}"] == NONE, s0[f"cnt{k}"] == 0)

    def objref(o, st, i):
        return st[f"self{i}"] if o == ("self",) else st[f"l{i}_{o[1]}"]

    def sel(o, f, st, i):
        ref = objref(o, st, i)
        e = st[f"f{nobj - 1}_{f}"]
        for k in range(nobj - 2, -1, -1):
            e = z3.If(ref == k, st[f"f{k}_{f}"], e)
        return e

    def ev(e, st, i):
        k = e[0]
        if k == "const":
            return BVV(e[1])
        if k == "local":
            return st[f"l{i}_{e[1]}"]
        if k == "field":
            if e[2] not in fields:
                raise Untranslatable(f"field {e[2]} never assigned")
            return sel(e[1], e[2], st, i)
        if k == "clsattr":
            if e[1] not in clsattrs:
                raise Untranslatable(f"class attribute {e[1]} never assigned")
            return st["c_" + e[1]]
        if k == "table_get":
            return z3.If(st["table"], BVV(PRESENT_V), BVV(MISSING_V))
        if k in ("not", "and", "or", "==", "!=", "<", "<=", ">", ">=", "table_has", "hasattr_cls"):
            return z3.If(evb(e, st, i), BVV(1), BVV(0))  # a boolean expression used as a value
        raise Untranslatable(str(e))

    def evb(e, st, i):
        k = e[0]
        if k == "not":
            return z3.Not(evb(e[1], st, i))
        if k in ("and", "or"):
            parts = [evb(x, st, i) for x in e[1]]
            return z3.And(parts) if k == "and" else z3.Or(parts)
        if k == "hasattr_cls":
            if e[1] not in clsattrs:
                return z3.BoolVal(False)
            return st["hc_" + e[1]]
        if k == "table_has":
            return st["table"]
        if k in ("==", "!="):
            a, b = ev(e[1], st, i), ev(e[2], st, i)
            return a == b if k == "==" else a != b
        if k in ("<", "<=", ">", ">="):
            a, b = ev(e[1], st, i), ev(e[2], st, i)
            return {"<": a < b, "<=": a <= b, ">": a > b, ">=": a >= b}[k]  # signed
        return ev(e, st, i) != 0

    def frame(a, b, changed):
        return [b[k] == a[k] for k in a if k not in changed]

    def set_field_eff(a, b, i, o, f, val, ch, eff):
        ref = objref(o, a, i)
        for k in range(nobj):
            ch.add(f"f{k}_{f}")
            eff.append(b[f"f{k}_{f}"] == z3.If(ref == k, val, a[f"f{k}_{f}"]))

    for t in range(N):
        a, b = S[t], S[t + 1]
        s.add(z3.ULT(sched[t], nthreads))
        alldone = z3.And([a[f"pc{i}"] == len(progs[i]) for i in range(nthreads)])
        cases = []
        for i, prog in enumerate(progs):
            for pc, ins in enumerate(prog):
                g = z3.And(sched[t] == i, a[f"pc{i}"] == pc)
                op = ins[0]
                ch = {f"pc{i}"}
                eff = [b[f"pc{i}"] == pc + 1]
                enabled = z3.BoolVal(True)
                if op == "enter_region":
                    ch.add(f"rd{i}")
                    eff.append(b[f"rd{i}"] == a[f"rd{i}"] + 1)
                elif op == "leave_region":
                    ch.add(f"rd{i}")
                    eff.append(b[f"rd{i}"] == a[f"rd{i}"] - 1)
                elif op == "alloc_self":
                    ch |= {"nobj", f"self{i}"}
                    eff += [b[f"self{i}"] == a["nobj"], b["nobj"] == a["nobj"] + 1]
                elif op == "set_local":
                    ch.add(f"l{i}_{ins[1]}")
                    if ins[2] == ("alloc",):
                        ch.add("nobj")
                        eff += [b[f"l{i}_{ins[1]}"] == a["nobj"], b["nobj"] == a["nobj"] + 1]
                    else:
                        eff.append(b[f"l{i}_{ins[1]}"] == ev(ins[2], a, i))
                elif op == "set_local_from_self":
                    ch.add(f"l{i}_{ins[1]}")
                    eff.append(b[f"l{i}_{ins[1]}"] == a[f"self{i}"])
                elif op == "set_self_from_local":
                    ch.add(f"self{i}")
                    eff.append(b[f"self{i}"] == a[f"l{i}_{ins[1]}"])
                elif op == "set_clsattr":
                    ch |= {"c_" + ins[1], "hc_" + ins[1]}
                    if ins[2] == ("alloc",):
                        ch.add("nobj")
                        eff += [b["c_" + ins[1]] == a["nobj"], b["nobj"] == a["nobj"] + 1, b["hc_" + ins[1]] == True]  # noqa: E712
                    else:
                        eff += [b["c_" + ins[1]] == ev(ins[2], a, i), b["hc_" + ins[1]] == True]  # noqa: E712
                elif op == "set_field":
                    if ins[3] == ("newlock",):
                        ch.add("nlock")
                        set_field_eff(a, b, i, ins[1], ins[2], a["nlock"], ch, eff)
                        eff.append(b["nlock"] == a["nlock"] + 1)
                    else:
                        set_field_eff(a, b, i, ins[1], ins[2], ev(ins[3], a, i), ch, eff)
                elif op == "add_field":
                    set_field_eff(a, b, i, ins[1], ins[2], sel(ins[1], ins[2], a, i) + ins[3], ch, eff)
                elif op == "table_set":
                    ch.add("table")
                    eff.append(b["table"] == True)  # noqa: E712
                elif op == "table_del":
                    ch |= {"table", "bad"}
                    eff += [b["table"] == False, b["bad"] == z3.Or(a["bad"], z3.Not(a["table"]))]  # noqa: E712
                elif op == "branch":
                    eff = [b[f"pc{i}"] == z3.If(evb(ins[1], a, i), BVV(pc + 1), BVV(ins[2]))]
                elif op == "jump":
                    eff = [b[f"pc{i}"] == ins[1]]
                elif op == "ret_self":
                    ch.add(f"self{i}")
                    eff = [b[f"pc{i}"] == ins[2], b[f"self{i}"] == ev(ins[1], a, i)]
                elif op == "acquire":
                    lid = ev(ins[1], a, i)
                    ch.add(f"held{i}")
                    eff.append(b[f"held{i}"] == lid)
                    en = []
                    for k in range(nlock):
                        ch |= {f"own{k}", f"cnt{k}"}
                        en.append(z3.Implies(lid == k, z3.Or(a[f"own{k}"] == NONE, a[f"own{k}"] == i)))
                        eff.append(b[f"own{k}"] == z3.If(lid == k, BVV(i), a[f"own{k}"]))
                        eff.append(b[f"cnt{k}"] == z3.If(lid == k, a[f"cnt{k}"] + 1, a[f"cnt{k}"]))
                    enabled = z3.And(z3.ULT(lid, nlock), *en)
                elif op == "release":
                    lid = a[f"held{i}"]
                    ch.add("bad")
                    owned = z3.Or([z3.And(lid == k, a[f"own{k}"] == i) for k in range(nlock)])
                    eff.append(b["bad"] == z3.Or(a["bad"], z3.Not(owned)))
                    for k in range(nlock):
                        ch |= {f"own{k}", f"cnt{k}"}
                        eff.append(b[f"cnt{k}"] == z3.If(lid == k, a[f"cnt{k}"] - 1, a[f"cnt{k}"]))
                        eff.append(b[f"own{k}"] == z3.If(z3.And(lid == k, a[f"cnt{k}"] == 1), BVV(NONE), a[f"own{k}"]))
                elif op == "use":
                    ch.add("bad")
                    eff.append(b["bad"] == z3.Or(a["bad"], z3.Not(a["table"])))
                else:
                    raise Untranslatable(op)
                cases.append(z3.And(g, enabled, *eff, *frame(a, b, ch)))
        cases.append(z3.And(alldone, *frame(a, b, set())))
        s.add(z3.Or(cases))
    # violations
    quiescent_bad = []
    for t in range(N + 1):
        q = z3.And([S[t][f"rd{i}"] == 0 for i in range(nthreads)])
        quiescent_bad.append(z3.And(q, S[t]["table"] != init_table))
    not_finished = z3.Not(z3.And([S[N][f"pc{i}"] == len(progs[i]) for i in range(nthreads)]))  # deadlock: N steps always suffice
    if max_preempt is not None:
        pre = []
        for t in range(1, N):
            prev_unfinished = z3.Or([z3.And(sched[t - 1] == i, S[t][f"pc{i}"] != len(progs[i])) for i in range(nthreads)])
            pre.append(z3.If(z3.And(sched[t] != sched[t - 1], prev_unfinished), 1, 0))
        s.add(z3.Sum(pre) <= max_preempt)
    if replayable:
        for i, prog in enumerate(progs):
            starts = [pc for pc, ins in enumerate(prog) if ins[0] not in NO_LINE_EVENT and (pc == 0 or prog[pc - 1][-1] != ins[-1] or prog[pc - 1][0] in ("branch", "jump", "fbranch", "fjump"))]
            for t in range(1, N):
                at_line_start = z3.Or([S[t][f"pc{i}"] == pc for pc in starts] + [S[t][f"pc{i}"] == len(prog)])
                s.add(z3.Implies(z3.And(sched[t - 1] == i, sched[t] != i), at_line_start))
    if prefix:
        for t, v in enumerate(prefix):
            s.add(sched[t] == v)
    if fix_init is not None:
        s.add(init_table == fix_init)
    if goal == "violation":
        s.add(z3.Or(z3.Or(quiescent_bad), S[N]["bad"], not_finished))
    else:  # reachability witness: a complete, violation-free run must exist (otherwise every violation query is vacuous)
        s.add(z3.Not(not_finished), z3.Not(S[N]["bad"]))
    t0 = time.time()
    r = s.check()
    dt = time.time() - t0
    trace = None
    if str(r) == "sat":
        m = s.model()
        trace = []
        for t in range(N):
            i = m.eval(sched[t], model_completion=True).as_long()
            pc = m.eval(S[t][f"pc{i}"], model_completion=True).as_long()
            if pc < len(progs[i]):
                ins = progs[i][pc]
                trace.append((i, ins[0], ins[-1]))
        kind = []
        if z3.is_true(m.eval(S[N]["bad"], model_completion=True)):
            kind.append("use-without-entry/failing-step")
        if z3.is_true(m.eval(not_finished, model_completion=True)):
            kind.append("deadlock")
        if any(z3.is_true(m.eval(q, model_completion=True)) for q in quiescent_bad):
            kind.append("table-not-restored")
        return "sat", round(dt, 2), N, {"trace": trace, "init_table": z3.is_true(m.eval(init_table, model_completion=True)), "kind": kind}
    return str(r), round(dt, 2), N, None


def single_thread_model(methods, cls_locks, depth, init_table, abort_at=None):
    """deterministic execution of the 1-thread program inside the MODEL semantics (used for translator validation):
    returns (table_present, refcount-like fields of object 0)"""
    r, dt, N, cex = check(methods, cls_locks, 1, depth, None, 60)
    return r
