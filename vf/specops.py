"""Operation alphabet over the template classes (vf.grammar) with an executable model of the documentation.

An `Op` bundles: the real call on an instance, the argument objects handed to it (for snapshots), the documented
effect on an abstract state (dict attr -> python value, MISSING_MARK for 'no value'), and what the documentation says
about failure. Harnesses for C01-C05 and C07 share this alphabet and assert different things about one execution.

Values inside abstract states are plain python data: ints/strs, lists, dicts, sets and, for nested spec values, dicts
tagged {"__spec__": "Inner", ...attrs}.
"""
import copy

from spec_classes import MISSING, UNCHANGED

from vf.grammar import DEFAULTS
from vf.snapshot import MISSING_MARK, read, spec_attrs
from vf.sym import assume, pick


class CallbackFail(Exception):
    """raised by user callbacks of the harness (transform / preparer failing at the i-th invocation)"""


class Op:
    def __init__(self, name, call, args=(), effect=None, fails=None, inplace=False, noop=False, note=""):
        self.name = name
        self.call = call  # (obj) -> result
        self.args = list(args)  # argument objects handed to the call
        self.effect = effect  # (state) -> new state  (documented meaning), None if the call is expected to raise
        self.fails = fails  # tuple of acceptable exception classes when the documentation says it must raise
        self.inplace = inplace
        self.noop = noop  # documented no-op returning the receiver
        self.note = note


def abstract(v):
    """abstract state of a value (contents only)."""
    if v is MISSING_MARK or v is MISSING:
        return MISSING_MARK
    sa = spec_attrs(v)
    if sa is not None:
        d = {"__spec__": type(v).__name__}
        for a in sa[0]:
            d[a] = abstract(read(v, a))
        return d
    if isinstance(v, dict):
        return {k: abstract(x) for k, x in v.items()}
    if isinstance(v, (set, frozenset)):
        return set(v)
    if isinstance(v, tuple):
        return tuple(abstract(x) for x in v)
    if hasattr(v, "__iter__") and hasattr(v, "__len__") and not isinstance(v, (str, bytes)):
        return [abstract(x) for x in v]
    return v


def abs_same(a, b):
    if a is MISSING_MARK or b is MISSING_MARK:
        return a is b
    if isinstance(a, dict) and isinstance(b, dict):
        return list(a.keys()) == list(b.keys()) and all(abs_same(a[k], b[k]) for k in a)
    if isinstance(a, list) and isinstance(b, list):
        return len(a) == len(b) and all(abs_same(x, y) for x, y in zip(a, b))
    if isinstance(a, set) and isinstance(b, set):
        return a == b
    if isinstance(a, (dict, list, set)) or isinstance(b, (dict, list, set)):
        return False
    if isinstance(a, bool) != isinstance(b, bool):
        return False
    return a is b or a == b


def state_of(o):
    return abstract(o)


def fresh_default(clsname, attr):
    d = DEFAULTS[clsname]()
    if clsname == "K3" and attr == "inner2":
        return inner_state()
    if clsname == "K4" and attr in ("items", "bag"):
        return []
    return d.get(attr, MISSING_MARK)


def inner_state(a=0, tags=None):
    return {"__spec__": "Inner", "a": a, "tags": list(tags or [])}


# ---------------------------------------------------------------------------------------------------------------------
# callbacks


def fn_add(c):
    return lambda x: x + c


def fn_const(c):
    return lambda x: c


def fn_raise(x):
    raise CallbackFail("transform")


def fn_wrong(x):
    return [1.5]


# ---------------------------------------------------------------------------------------------------------------------
# K1: scalars.  P is a dict of symbolic parameters; only the entries an op needs are touched.

K1_INT = ["x", "n"]


def k1_value(attr, P, conform=True):
    """a conforming (or, for conform=False, non-conforming) value for K1.<attr> built from symbolic leaves."""
    if attr in ("x", "n"):
        return P["i1"] if conform else pick([None, "s", 1.5, [1]], P["bad"])
    if attr == "s":
        return P["s1"] if conform else pick([None, 3, 1.5, ["a"]], P["bad"])
    if attr == "o":
        if conform:
            return None if P["b1"] else P["s1"]
        return pick([3, 1.5, ["a"], {"k": 1}], P["bad"])
    if attr == "u":
        if conform:
            return P["i1"] if P["b1"] else P["s1"]
        return pick([None, 1.5, [1], {"k": 1}], P["bad"])
    if attr == "lit":
        if conform:
            return pick(["r", "w", 3], P["sel3"])
        return pick(["x", 4, None, 1.5], P["bad"])
    if attr == "f":
        if conform:
            return P["i1"] if P["b1"] else pick([0.0, 1.5, -2.5], P["sel3"])
        return pick([None, "s", [1.0], {"k": 1}], P["bad"])
    raise AssertionError(attr)


def set_state(st, attr, v):
    st = dict(st)
    st[attr] = v
    return st


def k1_ops(opname, attr, P, inplace, conform=True, if_=True):
    """build one Op on a K1 instance."""
    kw = {}
    if inplace:
        kw["_inplace"] = True
    if not if_:
        kw["_if"] = False
    noop = not if_
    if opname == "with":
        v = k1_value(attr, P, conform)
        return Op(f"with_{attr}", lambda o: getattr(o, f"with_{attr}")(v, **kw), [v], (lambda st: set_state(st, attr, v)) if conform else None, (TypeError, ValueError), inplace, noop)
    if opname == "setattr":
        v = k1_value(attr, P, conform)

        def call(o):
            setattr(o, attr, v)
            return o

        return Op(f"setattr_{attr}", call, [v], (lambda st: set_state(st, attr, v)) if conform else None, (TypeError, ValueError), True, False)
    if opname == "transform":
        kind = pick(["add", "const", "raise", "wrong"], P["fk"])
        c = P["i2"]
        if kind == "add":
            fn = fn_add(c)
            eff = lambda st: set_state(st, attr, st[attr] + c)
            ok = attr in ("x", "n")
        elif kind == "const":
            v = k1_value(attr, P, True)
            fn = fn_const(v)
            eff = lambda st: set_state(st, attr, v)
            ok = True
        elif kind == "raise":
            fn, eff, ok = fn_raise, None, True
        else:
            fn, eff, ok = fn_wrong, None, True
        assume(ok)
        fails = (CallbackFail,) if kind == "raise" else (TypeError, ValueError)
        return Op(f"transform_{attr}", lambda o: getattr(o, f"transform_{attr}")(fn, **kw), [fn], eff, fails, inplace, noop, note=kind)
    if opname == "reset":
        return Op(f"reset_{attr}", lambda o: getattr(o, f"reset_{attr}")(**kw), [], lambda st: set_state(st, attr, fresh_default("K1", attr)), None, inplace, noop)
    if opname == "delattr":

        def call(o):
            delattr(o, attr)
            return o

        return Op(f"del_{attr}", call, [], lambda st: set_state(st, attr, fresh_default("K1", attr)), None, True, False)
    if opname == "reset_all":
        return Op("reset", lambda o: o.reset(**kw), [], lambda st: {**{a: fresh_default("K1", a) for a in st if a != "__spec__"}, "__spec__": "K1"}, None, inplace, noop)
    if opname == "update2":  # two keywords at once; the second may be ill-typed
        v1 = P["i1"]
        v2 = P["s1"] if conform else pick([None, 3, 1.5], P["bad"])
        first_bad = (not conform) and P["b1"]
        if first_bad:  # failing keyword first
            kws = {"s": v2, "n": v1}
        else:
            kws = {"n": v1, "s": v2}
        eff = (lambda st: set_state(set_state(st, "n", v1), "s", v2)) if conform else None
        return Op("update(n,s)", lambda o: o.update(**kws, **kw), [v1, v2], eff, (TypeError, ValueError), inplace, noop)
    if opname == "transform2":
        c = P["i2"]
        kind = pick(["ok", "raise-second", "raise-first", "wrong-second"], P["fk"])
        f_ok = fn_add(c)
        if kind == "ok":
            fs = {"n": f_ok, "x": fn_add(1)}
            eff = lambda st: set_state(set_state(st, "n", st["n"] + c), "x", st["x"] + 1)
        elif kind == "raise-second":
            fs, eff = {"n": f_ok, "x": fn_raise}, None
        elif kind == "raise-first":
            fs, eff = {"x": fn_raise, "n": f_ok}, None
        else:
            fs, eff = {"n": f_ok, "s": fn_wrong}, None
        fails = (CallbackFail,) if "raise" in kind else (TypeError, ValueError)
        return Op("transform(n,x)", lambda o: o.transform(**fs, **kw), list(fs.values()), eff, fails, inplace, noop, note=kind)
    if opname == "update_unknown":
        name = pick(["zz", "_private", "inner", "with_x"], P["sel3"] % 4 if False else P["bad"])
        return Op("update(unknown)", lambda o: o.update(**{name: 1}, **kw), [], None, (TypeError,), inplace, noop)
    if opname == "sentinel":
        which = pick(["with-MISSING", "with-UNCHANGED", "update-MISSING", "update-UNCHANGED", "with-noarg"], P["fk"])
        if which == "with-MISSING":
            call = lambda o: getattr(o, f"with_{attr}")(MISSING, **kw)
        elif which == "with-UNCHANGED":
            call = lambda o: getattr(o, f"with_{attr}")(UNCHANGED, **kw)
        elif which == "with-noarg":
            call = lambda o: getattr(o, f"with_{attr}")(**kw)
        elif which == "update-MISSING":
            call = lambda o: o.update(**{attr: MISSING}, **kw)
        else:
            call = lambda o: o.update(**{attr: UNCHANGED}, **kw)
        return Op(f"sentinel:{which}", call, [], lambda st: st, None, inplace, True, note=which)
    raise AssertionError(opname)


K1_OPS = ["with", "setattr", "transform", "reset", "delattr", "reset_all", "update2", "transform2", "update_unknown", "sentinel"]


def build_k1(NS, P, xset=True):
    """pre-state: K1 instance built through the constructor from symbolic leaves."""
    kw = dict(n=P["n0"], s=P["s0"])
    if xset:
        kw["x"] = P["x0"]
    return NS.K1(**kw)
