"""Operation alphabet over the template classes (vf.grammar) with an executable model of the documentation.

An `Op` bundles: the real call on an instance, the argument objects handed to it (for snapshots), the documented
effect on an abstract state (dict attr -> python value, MISSING_MARK for 'no value'), and what the documentation says
about failure. Harnesses for C01-C05 and C07 share this alphabet and assert different things about one execution.

Values inside abstract states are plain python data: ints/strs, lists, dicts, sets and, for nested spec values, dicts
tagged {"__spec__": "Inner", ...attrs}.
"""
import copy

from spec_classes import MISSING, UNCHANGED

from vf.grammar import DEFAULTS
from vf.snapshot import MISSING_MARK, read, spec_attrs
from vf.sym import assume, pick


class CallbackFail(Exception):
    """raised by user callbacks of the harness (transform / preparer failing at the i-th invocation)"""


class Op:
    def __init__(self, name, call, args=(), effect=None, fails=None, inplace=False, noop=False, note=""):
        self.name = name
        self.call = call  # (obj) -> result
        self.args = list(args)  # argument objects handed to the call
        self.effect = effect  # (state) -> new state  (documented meaning), None if the call is expected to raise
        self.fails = fails  # tuple of acceptable exception classes when the documentation says it must raise
        self.inplace = inplace
        self.noop = noop  # documented no-op returning the receiver
        self.note = note


def abstract(v):
    """abstract state of a value (contents only)."""
    if v is MISSING_MARK or v is MISSING:
        return MISSING_MARK
    sa = spec_attrs(v)
    if sa is not None:
        d = {"__spec__": type(v).__name__}
        for a in sa[0]:
            d[a] = abstract(read(v, a))
        return d
    if isinstance(v, dict):
        return {k: abstract(x) for k, x in v.items()}
    if isinstance(v, (set, frozenset)):
        return set(v)
    if isinstance(v, tuple):
        return tuple(abstract(x) for x in v)
    if hasattr(v, "__iter__") and hasattr(v, "__len__") and not isinstance(v, (str, bytes)):
        return [abstract(x) for x in v]
    return v


def abs_same(a, b):
    if a is MISSING_MARK or b is MISSING_MARK:
        return a is b
    if isinstance(a, dict) and isinstance(b, dict):
        if "__spec__" in a or "__spec__" in b:  # abstract spec instance: attribute order is not state
            return len(a) == len(b) and all(k in b and abs_same(a[k], b[k]) for k in a)
        return list(a.keys()) == list(b.keys()) and all(abs_same(a[k], b[k]) for k in a)
    if isinstance(a, list) and isinstance(b, list):
        return len(a) == len(b) and all(abs_same(x, y) for x, y in zip(a, b))
    if isinstance(a, set) and isinstance(b, set):
        return a == b
    if isinstance(a, (dict, list, set)) or isinstance(b, (dict, list, set)):
        return False
    if isinstance(a, bool) != isinstance(b, bool):
        return False
    return a is b or a == b


def state_of(o):
    return abstract(o)


def fresh_default(clsname, attr):
    d = DEFAULTS[clsname]()
    if clsname == "K3" and attr == "inner2":
        return inner_state()
    if clsname == "K4" and attr in ("items", "bag"):
        return []
    return d.get(attr, MISSING_MARK)


def inner_state(a=0, tags=None):
    return {"__spec__": "Inner", "a": a, "tags": list(tags or [])}


# ---------------------------------------------------------------------------------------------------------------------
# callbacks


def fn_add(c):
    return lambda x: x + c


def fn_const(c):
    return lambda x: c


def fn_raise(x):
    raise CallbackFail("transform")


def fn_wrong(x):
    return [1.5]


# ---------------------------------------------------------------------------------------------------------------------
# K1: scalars.  P is a dict of symbolic parameters; only the entries an op needs are touched.

K1_INT = ["x", "n"]


def k1_value(attr, P, conform=True):
    """a conforming (or, for conform=False, non-conforming) value for K1.<attr> built from symbolic leaves."""
    if attr in ("x", "n"):
        return P["i1"] if conform else pick([None, "s", 1.5, [1]], P["bad"])
    if attr == "s":
        return P["s1"] if conform else pick([None, 3, 1.5, ["a"]], P["bad"])
    if attr == "o":
        if conform:
            return None if P["b1"] else P["s1"]
        return pick([3, 1.5, ["a"], {"k": 1}], P["bad"])
    if attr == "u":
        if conform:
            return P["i1"] if P["b1"] else P["s1"]
        return pick([None, 1.5, [1], {"k": 1}], P["bad"])
    if attr == "lit":
        if conform:
            return pick(["r", "w", 3], P["sel3"])
        return pick(["x", 4, None, 1.5], P["bad"])
    if attr == "f":
        if conform:
            return P["i1"] if P["b1"] else pick([0.0, 1.5, -2.5], P["sel3"])
        return pick([None, "s", [1.0], {"k": 1}], P["bad"])
    raise AssertionError(attr)


def set_state(st, attr, v):
    st = dict(st)
    st[attr] = v
    return st


def k1_ops(opname, attr, P, inplace, conform=True, if_=True):
    """build one Op on a K1 instance."""
    kw = {}
    if inplace:
        kw["_inplace"] = True
    if not if_:
        kw["_if"] = False
    noop = not if_
    if opname == "with":
        v = k1_value(attr, P, conform)
        return Op(f"with_{attr}", lambda o: getattr(o, f"with_{attr}")(v, **kw), [v], (lambda st: set_state(st, attr, v)) if conform else None, (TypeError, ValueError), inplace, noop)
    if opname == "setattr":
        v = k1_value(attr, P, conform)

        def call(o):
            setattr(o, attr, v)
            return o

        return Op(f"setattr_{attr}", call, [v], (lambda st: set_state(st, attr, v)) if conform else None, (TypeError, ValueError), True, False)
    if opname == "transform":
        kind = pick(["add", "const", "raise", "wrong"], P["fk"])
        c = P["i2"]
        if kind == "add":
            fn = fn_add(c)
            eff = lambda st: set_state(st, attr, st[attr] + c)
            ok = attr in ("x", "n")
        elif kind == "const":
            v = k1_value(attr, P, True)
            fn = fn_const(v)
            eff = lambda st: set_state(st, attr, v)
            ok = True
        elif kind == "raise":
            fn, eff, ok = fn_raise, None, True
        else:
            fn, eff, ok = fn_wrong, None, True
        assume(ok)
        fails = (CallbackFail,) if kind == "raise" else (TypeError, ValueError)
        return Op(f"transform_{attr}", lambda o: getattr(o, f"transform_{attr}")(fn, **kw), [fn], eff, fails, inplace, noop, note=kind)
    if opname == "reset":
        return Op(f"reset_{attr}", lambda o: getattr(o, f"reset_{attr}")(**kw), [], lambda st: set_state(st, attr, fresh_default("K1", attr)), None, inplace, noop)
    if opname == "delattr":

        def call(o):
            delattr(o, attr)
            return o

        return Op(f"del_{attr}", call, [], lambda st: set_state(st, attr, fresh_default("K1", attr)), None, True, False)
    if opname == "reset_all":
        return Op("reset", lambda o: o.reset(**kw), [], lambda st: {**{a: fresh_default("K1", a) for a in st if a != "__spec__"}, "__spec__": "K1"}, None, inplace, noop)
    if opname == "update2":  # two keywords at once; the second may be ill-typed
        v1 = P["i1"]
        v2 = P["s1"] if conform else pick([None, 3, 1.5], P["bad"])
        first_bad = (not conform) and P["b1"]
        if first_bad:  # failing keyword first
            kws = {"s": v2, "n": v1}
        else:
            kws = {"n": v1, "s": v2}
        eff = (lambda st: set_state(set_state(st, "n", v1), "s", v2)) if conform else None
        return Op("update(n,s)", lambda o: o.update(**kws, **kw), [v1, v2], eff, (TypeError, ValueError), inplace, noop)
    if opname == "transform2":
        c = P["i2"]
        kind = pick(["ok", "raise-second", "raise-first", "wrong-second"], P["fk"])
        f_ok = fn_add(c)
        if kind == "ok":
            fs = {"n": f_ok, "x": fn_add(1)}
            eff = lambda st: set_state(set_state(st, "n", st["n"] + c), "x", st["x"] + 1)
        elif kind == "raise-second":
            fs, eff = {"n": f_ok, "x": fn_raise}, None
        elif kind == "raise-first":
            fs, eff = {"x": fn_raise, "n": f_ok}, None
        else:
            fs, eff = {"n": f_ok, "s": fn_wrong}, None
        fails = (CallbackFail,) if "raise" in kind else (TypeError, ValueError)
        return Op("transform(n,x)", lambda o: o.transform(**fs, **kw), list(fs.values()), eff, fails, inplace, noop, note=kind)
    if opname == "transform_identity_kw":  # whole-value transform returning its input + attribute transforms
        c = P["i2"]
        return Op("transform(identity, n=f)", lambda o: o.transform(lambda t: t, n=fn_add(c), **kw), [], lambda st: set_state(st, "n", st["n"] + c), None, inplace, noop)
    if opname == "transform_other_kw":  # whole-value transform returning ANOTHER pre-existing instance + attribute transforms
        c = P["i2"]
        other = P["other"]
        op = Op("transform(->other, n=f)", lambda o: o.transform(lambda t: other, n=fn_add(c), **kw), [other], lambda st: set_state(state_of(other), "n", state_of(other)["n"] + c), None, inplace, noop)
        return op
    if opname == "update_unknown":
        name = pick(["zz", "_private", "inner", "with_x"], P["sel3"] % 4 if False else P["bad"])
        return Op("update(unknown)", lambda o: o.update(**{name: 1}, **kw), [], None, (TypeError,), inplace, noop)
    if opname == "sentinel":
        which = pick(["with-MISSING", "with-UNCHANGED", "update-MISSING", "update-UNCHANGED", "with-noarg"], P["fk"])
        if which == "with-MISSING":
            call = lambda o: getattr(o, f"with_{attr}")(MISSING, **kw)
        elif which == "with-UNCHANGED":
            call = lambda o: getattr(o, f"with_{attr}")(UNCHANGED, **kw)
        elif which == "with-noarg":
            call = lambda o: getattr(o, f"with_{attr}")(**kw)
        elif which == "update-MISSING":
            call = lambda o: o.update(**{attr: MISSING}, **kw)
        else:
            call = lambda o: o.update(**{attr: UNCHANGED}, **kw)
        return Op(f"sentinel:{which}", call, [], lambda st: st, None, inplace, True, note=which)
    raise AssertionError(opname)


K1_OPS = ["transform_identity_kw", "transform_other_kw", "with", "setattr", "transform", "reset", "delattr", "reset_all", "update2", "transform2", "update_unknown", "sentinel"]


def build_k1(NS, P, xset=True):
    """pre-state: K1 instance built through the constructor from symbolic leaves."""
    kw = dict(n=P["n0"], s=P["s0"])
    if xset:
        kw["x"] = P["x0"]
    return NS.K1(**kw)


# ---------------------------------------------------------------------------------------------------------------------
# K3: nested spec values (scalar helpers on `inner` (no default) / `inner2` (default factory) and top-level update)

K3_FAIL_OPS = ["update_kw2_bad", "with_obj_kw2_bad"]
K3_OPS = ["with_kw", "with_obj", "with_obj_kw", "update_kw", "transform_kw", "transform_fn", "reset", "update_top", "transform_top", "setattr_obj", "with_dict"]


def build_k3(NS, P, inner_set=True):
    kw = dict(y=P["n0"], kids=[NS.Inner(a=P["x0"])])
    if inner_set:
        kw["inner"] = NS.Inner(a=P["i0"], tags=["p"])
    return NS.K3(**kw)


def k3_ops(NS, opname, attr, P, inplace, if_=True):
    """attr in {"inner", "inner2"}."""
    kw = {}
    if inplace:
        kw["_inplace"] = True
    if not if_:
        kw["_if"] = False
    noop = not if_
    v = P["i1"]

    def old(st):
        cur = st[attr]
        return cur if cur is not MISSING_MARK else None

    if opname == "with_kw":  # a freshly built nested spec from keywords
        return Op(f"with_{attr}(a=v)", lambda o: getattr(o, f"with_{attr}")(a=v, **kw), [v], lambda st: set_state(st, attr, inner_state(v)), None, inplace, noop)
    if opname == "with_obj":
        obj = NS.Inner(a=v, tags=["q"])
        return Op(f"with_{attr}(obj)", lambda o: getattr(o, f"with_{attr}")(obj, **kw), [obj], lambda st: set_state(st, attr, inner_state(v, ["q"])), None, inplace, noop)
    if opname == "with_obj_kw":
        obj = NS.Inner(a=v, tags=["q"])
        c = P["i2"]
        return Op(f"with_{attr}(obj,a=c)", lambda o: getattr(o, f"with_{attr}")(obj, a=c, **kw), [obj], lambda st: set_state(st, attr, inner_state(c, ["q"])), None, inplace, noop)
    if opname == "with_dict":  # dict-to-spec casting
        d = {"a": v}
        return Op(f"with_{attr}(dict)", lambda o: getattr(o, f"with_{attr}")(d, **kw), [d], lambda st: set_state(st, attr, inner_state(v)), None, inplace, noop)
    if opname == "update_kw":  # merge keywords into the existing nested value (a new one when there is none)

        def eff(st):
            cur = old(st)
            return set_state(st, attr, inner_state(v, cur["tags"] if cur else []))

        return Op(f"update_{attr}(a=v)", lambda o: getattr(o, f"update_{attr}")(a=v, **kw), [v], eff, None, inplace, noop)
    if opname == "update_kw2_bad":  # nested update with two keywords, the second ill-typed
        op = Op(f"update_{attr}(a=v,tags=<bad>)", lambda o: getattr(o, f"update_{attr}")(a=v, tags=5, **kw), [v], None, (TypeError, ValueError), inplace)
        return op
    if opname == "with_obj_kw2_bad":
        obj = NS.Inner(a=v, tags=["q"])
        op = Op(f"with_{attr}(obj,a=c,tags=<bad>)", lambda o: getattr(o, f"with_{attr}")(obj, a=P["i2"], tags=5, **kw), [obj], None, (TypeError, ValueError), inplace)
        return op
    if opname == "transform_kw":
        c = P["i2"]
        fn = fn_add(c)

        def eff(st):
            cur = old(st)
            assume(cur is not None)
            return set_state(st, attr, inner_state(cur["a"] + c, cur["tags"]))

        return Op(f"transform_{attr}(a=fn)", lambda o: getattr(o, f"transform_{attr}")(a=fn, **kw), [fn], eff, None, inplace, noop)
    if opname == "transform_fn":
        fn = lambda cur: NS.Inner(a=v)
        return Op(f"transform_{attr}(fn)", lambda o: getattr(o, f"transform_{attr}")(fn, **kw), [fn], lambda st: set_state(st, attr, inner_state(v)), None, inplace, noop)
    if opname == "reset":
        if attr == "inner":
            assume(P.get("inner_set", True))  # resetting an attribute that has neither value nor default: not claimed
        return Op(f"reset_{attr}", lambda o: getattr(o, f"reset_{attr}")(**kw), [], lambda st: set_state(st, attr, fresh_default("K3", attr)), None, inplace, noop)
    if opname == "update_top":  # several changes at once through the top-level helper
        obj = NS.Inner(a=v)
        c = P["i2"]
        return Op("update(y,attr)", lambda o: o.update(**{"y": c, attr: obj}, **kw), [obj], lambda st: set_state(set_state(st, "y", c), attr, inner_state(v)), None, inplace, noop)
    if opname == "transform_top":
        c = P["i2"]
        fn = fn_add(c)
        return Op("transform(y)", lambda o: o.transform(y=fn, **kw), [fn], lambda st: set_state(st, "y", st["y"] + c), None, inplace, noop)
    if opname == "setattr_obj":
        obj = NS.Inner(a=v)

        def call(o):
            setattr(o, attr, obj)
            return o

        return Op(f"setattr_{attr}", call, [obj], lambda st: set_state(st, attr, inner_state(v)), None, True, False)
    raise AssertionError(opname)


# ---------------------------------------------------------------------------------------------------------------------
# K5: prepared values


def build_k5(NS, P):
    kw = {}
    if P.get("keyok"):  # (through the constructor, so that frozen twins can be built the same way)
        kw["z"] = P["i0"] if "i0" in P else 3  # assigned value of an attribute declared invalidated_by x
        kw["dz"] = 9  # assigned value of an attribute invalidated_by the (unset) attribute src
    o = NS.K5(x=P["x0"], w=P["n0"], big=[1], **kw)
    if P.get("b1"):
        o.pl
        o.p  # fill the cache of the derived property (a "cached derived value reachable from the receiver")
    return o


def k5_ops(NS, opname, P, inplace):
    kw = {"_inplace": True} if inplace else {}
    if opname == "with_pw_str":  # the preparer casts str -> int (its length)
        s = pick(["", "a", "abc"], P["sel3"])
        return Op("with_pw(str)", lambda o: o.with_pw(s, **kw), [s], lambda st: set_state(st, "pw", len(s)), None, inplace)
    if opname == "with_pw_int":
        v = P["i1"]
        return Op("with_pw(int)", lambda o: o.with_pw(v, **kw), [v], lambda st: set_state(st, "pw", v), None, inplace)
    if opname == "setattr_pw_str":
        s = pick(["", "a", "abc"], P["sel3"])

        def call(o):
            o.pw = s
            return o

        return Op("setattr_pw(str)", call, [s], lambda st: set_state(st, "pw", len(s)), None, True)
    if opname == "update_pw_str":
        s = pick(["", "a", "abc"], P["sel3"])
        return Op("update(pw=str)", lambda o: o.update(pw=s, **kw), [s], lambda st: set_state(st, "pw", len(s)), None, inplace)
    if opname == "with_scores":  # whole-collection assignment runs the item preparer on every element
        v = P["i1"]
        lst = [v, "ab"]
        return Op("with_scores(list)", lambda o: o.with_scores(lst, **kw), [lst], lambda st: set_state(st, "scores", [v, 2]), None, inplace)
    if opname == "with_x_dep":  # x is a dependency of the cached property p and of z (invalidated_by)
        v = P["i1"]
        return Op("with_x(dep)", lambda o: o.with_x(v, **kw), [v], lambda st: set_state(set_state(st, "x", v), "z", 7), None, inplace)
    if opname == "transform_x_dep":
        c = P["i1"]
        fn = fn_add(c)
        return Op("transform_x(dep)", lambda o: o.transform_x(fn, **kw), [fn], lambda st: set_state(set_state(st, "x", st["x"] + c), "z", 7), None, inplace)
    if opname == "update_x_dep":
        v = P["i1"]
        return Op("update(x)(dep)", lambda o: o.update(x=v, **kw), [v], lambda st: set_state(set_state(st, "x", v), "z", 7), None, inplace)
    if opname == "reset_x_dep":
        return Op("reset_x(dep)", lambda o: o.reset_x(**kw), [], lambda st: set_state(set_state(st, "x", 0), "z", 7), None, inplace)


    if opname == "with_big_item":  # element helper on a do_not_copy collection attribute, without _inplace
        v = P["i1"]
        return Op("with_big_item", lambda o: o.with_big_item(v, **kw), [v], lambda st: set_state(st, "big", st["big"] + [v]), None, inplace)
    if opname == "del_src_unset":  # deleting an attribute that has neither value nor default fails (AttributeError)

        def call(o):
            del o.src
            return o

        op = Op("del src (unset)", call, [], None, (AttributeError,), True)
        return op
    if opname == "reset_src_unset":
        op = Op("reset_src(_inplace) (unset)", lambda o: o.reset_src(_inplace=True), [], None, (AttributeError,), True)
        return op
    raise AssertionError(opname)


K5_FAIL_OPS = ["del_src_unset", "reset_src_unset"]
K5_OPS = ["with_big_item", "with_pw_str", "with_pw_int", "setattr_pw_str", "update_pw_str", "with_scores", "with_x_dep", "transform_x_dep", "update_x_dep", "reset_x_dep"]


# ---------------------------------------------------------------------------------------------------------------------
# K2: containers of scalars (element helpers + whole-collection assignment), conforming and non-conforming arguments.
# Effects are not modelled here (C06 owns them); ops carry `must_raise` for ill-typed arguments.


def build_k2(NS, P):
    n = P["n"]
    assume(0 <= n <= 2)
    e = P["e"]
    nums = [e[t] for t in range(n)]
    opts = {k: e[t] for t, k in enumerate(["a", "b"][:n])}
    tags = [["a", "b"][t] for t in range(n)]
    return NS.K2(nums=nums, opts=opts, tags=tags, y=P["n0"])


def build_k2_sets(NS, P):
    n = P["n"]
    assume(0 <= n <= 2)
    e = P["e"]
    for t in range(2):
        assume(0 <= e[t] <= 2)
    return NS.K2(vals={e[t] for t in range(n)}, y=P["n0"])


K2_OPS = [
    "with_num", "with_num_index", "with_num_insert", "update_num", "transform_num", "without_num", "with_nums", "setattr_nums", "reset_nums",
    "with_opt", "update_opt", "transform_opt", "without_opt", "with_opts", "with_tag", "with_tags", "update2_cols",
]
K2_SET_OPS = ["with_val", "update_val", "transform_val", "without_val", "with_vals"]


def _mk(name, call, args, inplace, must_raise=False, fails=(TypeError, ValueError, IndexError, KeyError), note=""):
    op = Op(name, call, args, None, fails, inplace, False, note)
    op.must_raise = must_raise
    return op


def k2_ops(opname, P, inplace, conform=True):
    kw = {"_inplace": True} if inplace else {}
    bad_int = lambda: pick([None, "s", 1.5, [1]], P["bad"])
    bad_str = lambda: pick([None, 3, 1.5, ["a"]], P["bad"])
    v = P["i1"] if conform else bad_int()
    i = P["i"]
    if opname == "with_num":
        return _mk("with_num", lambda o: o.with_num(v, **kw), [v], inplace, not conform)
    if opname == "with_num_index":
        assume(-3 <= i <= 3)
        return _mk("with_num(_index)", lambda o: o.with_num(v, _index=i, **kw), [v], inplace, False, note="bad" if not conform else "")
    if opname == "with_num_insert":
        assume(-3 <= i <= 3)
        return _mk("with_num(_insert)", lambda o: o.with_num(v, _index=i, _insert=True, **kw), [v], inplace, not conform)
    if opname == "update_num":
        assume(-3 <= i <= 3)
        return _mk("update_num", lambda o: o.update_num(i, v, _by_index=True, **kw), [v], inplace, False, note="bad" if not conform else "")
    if opname == "transform_num":
        assume(-3 <= i <= 3)
        kind = pick(["add", "raise", "wrong"], P["fk"])
        fn = fn_add(P["i2"]) if kind == "add" else (fn_raise if kind == "raise" else fn_wrong)
        return _mk("transform_num", lambda o: o.transform_num(i, fn, _by_index=True, **kw), [fn], inplace, False, fails=(TypeError, ValueError, IndexError, KeyError, CallbackFail), note=kind)
    if opname == "without_num":
        assume(-3 <= i <= 3)
        return _mk("without_num", lambda o: o.without_num(i, _by_index=True, **kw), [], inplace)
    if opname == "with_nums":  # whole-collection assignment: conforming list / list with an ill-typed element / not a list
        kind = pick(["ok", "bad-elem", "bad-last", "not-iterable", "tuple"], P["fk"])
        if kind == "ok":
            val = [P["i1"], P["i2"]]
        elif kind == "bad-elem":
            val = [bad_int(), P["i1"]]
        elif kind == "bad-last":
            val = [P["i1"], bad_int()]
        elif kind == "not-iterable":
            val = 5
        else:
            val = (P["i1"], P["i2"])
        return _mk("with_nums", lambda o: o.with_nums(val, **kw), [val], inplace, kind in ("bad-elem", "bad-last", "not-iterable"), note=kind)
    if opname == "setattr_nums":
        kind = pick(["ok", "bad-last"], P["fk"])
        val = [P["i1"], P["i2"]] if kind == "ok" else [P["i1"], bad_int()]

        def call(o):
            o.nums = val
            return o

        return _mk("setattr_nums", call, [val], True, kind != "ok", note=kind)
    if opname == "reset_nums":
        return _mk("reset_nums", lambda o: o.reset_nums(**kw), [], inplace)
    key = pick(["a", "b", "c"], P["k"]) if P.get("keyok", True) else pick([3, None, 1.5], P["bad"])
    if opname == "with_opt":
        return _mk("with_opt", lambda o: o.with_opt(key, v, **kw), [v], inplace, (not conform) or not P.get("keyok", True))
    if opname == "update_opt":
        return _mk("update_opt", lambda o: o.update_opt(key, v, **kw), [v], inplace, False, note="bad" if not conform else "")
    if opname == "transform_opt":
        kind = pick(["add", "raise", "wrong"], P["fk"])
        fn = fn_add(P["i2"]) if kind == "add" else (fn_raise if kind == "raise" else fn_wrong)
        return _mk("transform_opt", lambda o: o.transform_opt(key, fn, **kw), [fn], inplace, False, fails=(TypeError, ValueError, IndexError, KeyError, CallbackFail), note=kind)
    if opname == "without_opt":
        return _mk("without_opt", lambda o: o.without_opt(key, **kw), [], inplace)
    if opname == "with_opts":
        kind = pick(["ok", "bad-value", "bad-key", "not-mapping"], P["fk"])
        val = {"ok": {"x": P["i1"], "z": P["i2"]}, "bad-value": {"x": P["i1"], "z": "s"}, "bad-key": {"x": P["i1"], 7: 1}, "not-mapping": [1]}[kind]
        return _mk("with_opts", lambda o: o.with_opts(val, **kw), [val], inplace, kind != "ok", note=kind)
    if opname == "with_tag":
        t = P["s1"] if conform else bad_str()
        return _mk("with_tag", lambda o: o.with_tag(t, **kw), [t], inplace, not conform)
    if opname == "with_tags":
        kind = pick(["ok", "bad-last"], P["fk"])
        val = ["p", P["s1"]] if kind == "ok" else ["p", bad_str()]
        return _mk("with_tags", lambda o: o.with_tags(val, **kw), [val], inplace, kind != "ok", note=kind)
    if opname == "update2_cols":  # multi-attribute update: two keywords, the failing one first or second
        good = [P["i1"]]
        badv = [P["i1"], bad_int()] if not conform else [P["i2"]]
        if P["b1"]:
            kws = {"nums": good, "tags": ["z"], "y": P["i2"]} if conform else {"nums": badv, "y": P["i2"]}
        else:
            kws = {"y": P["i2"], "nums": good} if conform else {"y": P["i2"], "nums": badv}
        return _mk("update(y,nums)", lambda o: o.update(**kws, **kw), list(kws.values()), inplace, not conform, note="first" if P["b1"] else "second")
    raise AssertionError(opname)


def k2_set_ops(opname, P, inplace, conform=True):
    kw = {"_inplace": True} if inplace else {}
    x = P["i"]
    assume(0 <= x <= 2)
    v = P["i1"]
    if conform:
        assume(0 <= v <= 3)
    else:
        v = pick([None, "s", 1.5], P["bad"])
    if opname == "with_val":
        return _mk("with_val", lambda o: o.with_val(v, **kw), [v], inplace, not conform)
    if opname == "update_val":
        return _mk("update_val", lambda o: o.update_val(x, v, **kw), [v], inplace, False, note="bad" if not conform else "")
    if opname == "transform_val":
        kind = pick(["add", "raise", "wrong"], P["fk"])
        fn = fn_add(1) if kind == "add" else (fn_raise if kind == "raise" else fn_wrong)
        return _mk("transform_val", lambda o: o.transform_val(x, fn, **kw), [fn], inplace, False, fails=(TypeError, ValueError, IndexError, KeyError, CallbackFail), note=kind)
    if opname == "without_val":
        return _mk("without_val", lambda o: o.without_val(x, **kw), [], inplace)
    if opname == "with_vals":
        kind = pick(["ok", "bad-elem", "list"], P["fk"])
        val = {"ok": {1, 3}, "bad-elem": {1, "s"}, "list": [1, 2]}[kind]
        return _mk("with_vals", lambda o: o.with_vals(val, **kw), [val], inplace, kind == "bad-elem", note=kind)
    raise AssertionError(opname)



# ---------------------------------------------------------------------------------------------------------------------
# K4: keyed containers assigned as a whole (pre-built KeyedList / KeyedSet / list values holding ill-typed elements)

K4_PREP_OPS = ["with_items_prep", "setattr_items_prep", "reset_kl2", "del_kl2", "reset_all_k4"]
K4_DUP_OPS = ["with_item_index_dup", "update_item_dup", "setitem_dup"]
K4_OPS = ["ctor_items", "setattr_items", "with_items", "update_items", "ctor_bag", "with_bag", "with_lst", "with_item_obj", "with_bag_item_obj"]


def build_k4(NS, P):
    return NS.K4(items=[NS.Item("a2", v=P["x0"]), NS.Item("b2", v=P["n0"])], bag=[NS.Item("b", v=P["n0"])], lst=[NS.Item("c")])


def k4_ops(NS, opname, P, inplace, conform=True):
    from spec_classes.types import KeyedList, KeyedSet

    kw = {"_inplace": True} if inplace else {}
    good = NS.Item("z", v=P["i1"])
    bad = pick([3.5, 7, None, ("t",)], P["bad"])
    elems = [good] if conform else ([good, bad] if P["b1"] else [bad, good])
    kind = pick(["keyed", "plain"], P["fk"] % 2 if False else (0 if P["b1"] else 1)) if False else ("keyed" if P["sel3"] % 2 == 0 else "plain")
    if opname.endswith("items") or opname == "ctor_items":
        val = KeyedList(elems, key=lambda it: it.k if hasattr(it, "k") else "bad") if kind == "keyed" else list(elems)
    elif "bag" in opname and not opname.endswith("obj"):
        val = KeyedSet(elems, key=lambda it: it.k if hasattr(it, "k") else "bad") if kind == "keyed" else list(elems)
    else:
        val = list(elems)
    if opname == "ctor_items":
        return _mk("K4(items=...)", lambda o: NS.K4(items=val), [val], False, not conform, note=kind)
    if opname == "ctor_bag":
        return _mk("K4(bag=...)", lambda o: NS.K4(bag=val), [val], False, not conform, note=kind)
    if opname == "setattr_items":

        def call(o):
            o.items = val
            return o

        return _mk("setattr_items", call, [val], True, not conform, note=kind)
    if opname == "with_items":
        return _mk("with_items", lambda o: o.with_items(val, **kw), [val], inplace, not conform, note=kind)
    if opname == "update_items":
        return _mk("update(items=)", lambda o: o.update(items=val, **kw), [val], inplace, not conform, note=kind)
    if opname == "with_bag":
        return _mk("with_bag", lambda o: o.with_bag(val, **kw), [val], inplace, not conform, note=kind)
    if opname == "with_lst":
        return _mk("with_lst", lambda o: o.with_lst(val, **kw), [val], inplace, not conform, note=kind)
    if opname in ("with_items_prep", "setattr_items_prep"):  # the item preparer returns NEW objects for items with v < 0
        neg = NS.Item("n", v=-3)
        val = KeyedList([NS.Item("p", v=P["i1"]), neg])
        if opname == "with_items_prep":
            return _mk("with_items(keyed, preparer)", lambda o: o.with_items(val, **kw), [val, neg], inplace, False)

        def call(o):
            o.items = val
            return o

        return _mk("setattr_items(keyed, preparer)", call, [val, neg], True, False)
    if opname == "reset_kl2":
        return _mk("reset_kl2", lambda o: o.reset_kl2(**kw), [], inplace, False)
    if opname == "del_kl2":

        def call(o):
            del o.kl2
            return o

        return _mk("del kl2", call, [], True, False)
    if opname == "reset_all_k4":
        return _mk("reset", lambda o: o.reset(**kw), [], inplace, False)
    if opname == "with_item_index_dup":  # replace slot 0 by an item whose key belongs to ANOTHER slot: ValueError
        dup = NS.Item("b2", v=P["i1"])
        return _mk("with_item(dup,_index=0)", lambda o: o.with_item(dup, _index=0, **kw), [dup], inplace, True)
    if opname == "update_item_dup":
        dup = NS.Item("b2", v=P["i1"])
        return _mk("update_item(0, dup)", lambda o: o.update_item(0, dup, _by_index=True, **kw), [dup], inplace, True)
    if opname == "setitem_dup":
        dup = NS.Item("b2", v=P["i1"])

        def call(o):
            o.items[0] = dup
            return o

        return _mk("items[0]=dup", call, [dup], True, True)
    if opname == "with_item_obj":
        x = good if conform else bad
        return _mk("with_item(obj)", lambda o: o.with_item(x, **kw), [x], inplace, not conform)
    if opname == "with_bag_item_obj":
        x = good if conform else bad
        return _mk("with_bag_item(obj)", lambda o: o.with_bag_item(x, **kw), [x], inplace, not conform)
    raise AssertionError(opname)
