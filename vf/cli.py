"""./check <Cxx> [--tier quick|thorough] [--replay FILE] [--only SUBSTR] [--jobs N]

Exit codes: 0 held on everything explored (known findings allowed); 1 violation (replayed on the real code);
2 inconclusive / harness error (non-reproducing counterexample, vacuity, NotDeterministic, witness mismatch).
"""
import argparse
import concurrent.futures as cf
import hashlib
import json
import os
import subprocess
import sys
import tempfile
import time

from vf import known as K
from vf.registry import REGISTRY

ROOT = os.path.dirname(os.path.dirname(os.path.abspath(__file__)))
PY = os.path.join(ROOT, ".venv", "bin", "python")
ENV = dict(os.environ, PYTHONDONTWRITEBYTECODE="1", PYTHONPATH=ROOT, PYTHONHASHSEED="0")


def _list(module, tier):
    p = subprocess.run([PY, "-m", "vf.worker", "list", module, tier], cwd=ROOT, env=ENV, capture_output=True, text=True, timeout=600)
    if p.returncode != 0:
        raise RuntimeError(f"listing {module} failed:\n{p.stderr[-3000:]}")
    return json.loads(p.stdout.strip().splitlines()[-1])


STOP = {"flag": False, "fail_fast": False}


def _run_one(module, tier, ob, prop, seed, tmpdir):
    if STOP["flag"]:
        return {"name": ob["name"], "module": module, "verdict": "SKIPPED", "paths": 0, "hist": {}, "wall_s": 0}
    r = _run_one_(module, tier, ob, prop, seed, tmpdir)
    if STOP["fail_fast"] and r.get("verdict") == "REFUTED":
        STOP["flag"] = True
    return r


def _run_one_(module, tier, ob, prop, seed, tmpdir):
    out = os.path.join(tmpdir, hashlib.sha1((module + ob["name"]).encode()).hexdigest() + ".json")
    hard = ob["timeout"] * 1.6 + 240
    t0 = time.time()
    try:
        p = subprocess.run([PY, "-m", "vf.worker", "run", module, tier, ob["name"], out, prop, str(seed)], cwd=ROOT, env=ENV, capture_output=True, text=True, timeout=hard)
        err = p.stderr[-2000:]
    except subprocess.TimeoutExpired:
        return {"name": ob["name"], "module": module, "verdict": "TIMEOUT", "paths": 0, "hist": {}, "wall_s": round(time.time() - t0, 1), "error": f"worker exceeded hard limit {hard:.0f}s"}
    if os.path.exists(out):
        with open(out) as f:
            raw = f.read()
        try:
            return json.loads(raw)
        except ValueError as ex:
            pos = getattr(ex, "pos", 0)
            return {"name": ob["name"], "module": module, "verdict": "ERROR", "paths": 0, "hist": {}, "wall_s": round(time.time() - t0, 1), "error": f"worker result is not JSON ({ex}): ...{raw[max(0, pos - 200):pos + 100]}..."}
    return {"name": ob["name"], "module": module, "verdict": "ERROR", "paths": 0, "hist": {}, "wall_s": round(time.time() - t0, 1), "error": "worker died: " + err}


def replay(prop, module, tier, name, args):
    p = subprocess.run([PY, "-m", "vf.worker", "replay", module, tier, name, prop], cwd=ROOT, env=ENV, input=json.dumps(args), capture_output=True, text=True, timeout=900)
    if p.returncode != 0:
        return {"outcome": "REPLAY-ERROR", "violation": None, "stderr": p.stderr[-2000:]}
    return json.loads(p.stdout.strip().splitlines()[-1])


def main():
    ap = argparse.ArgumentParser()
    ap.add_argument("prop")
    ap.add_argument("--tier", default=os.environ.get("VERIF_TIER", "quick"), choices=["quick", "thorough"])
    ap.add_argument("--replay")
    ap.add_argument("--only", default=None)
    ap.add_argument("--jobs", type=int, default=int(os.environ.get("VERIF_JOBS", "0")) or min(16, os.cpu_count() or 4))
    ap.add_argument("--no-evidence", action="store_true")
    ap.add_argument("--fail-fast", action="store_true", help="skip obligations not yet started once one is refuted (used by the seeded-change runner)")
    a = ap.parse_args()
    prop = a.prop
    STOP["fail_fast"] = a.fail_fast
    seed = int(os.environ.get("VERIF_SEED", "0") or 0)

    if a.replay:
        with open(a.replay) as f:
            rec = json.load(f)
        r = replay(rec["property"], rec["module"], rec["tier"], rec["obligation"], rec["args"])
        if r.get("violation"):
            print(f"reproduced: {r['violation']['sig']}: {r['violation']['detail'][:300]}")
            print(f"VIOLATION property={rec['property']} replay={a.replay}")
            sys.exit(1)
        print(f"not reproduced: outcome={r.get('outcome')} {r.get('stderr', '')}")
        sys.exit(0)

    if prop not in REGISTRY:
        print(f"unknown or unclaimed property {prop}")
        sys.exit(2)
    t0 = time.time()
    known = K.load(prop)
    jobs = []
    for module in REGISTRY[prop]:
        for ob in _list(module, a.tier):
            if a.only and a.only not in ob["name"]:
                continue
            jobs.append((module, ob))
    results = []
    with tempfile.TemporaryDirectory(prefix="vf-") as tmpdir, cf.ThreadPoolExecutor(max_workers=a.jobs) as ex:
        # longest first
        jobs.sort(key=lambda j: -j[1]["timeout"])
        futs = [ex.submit(_run_one, m, a.tier, ob, prop, seed, tmpdir) for m, ob in jobs]
        for f in futs:
            results.append(f.result())

    groups = {ob["name"]: ob.get("group") for _, ob in jobs}
    violations, harness_errors, known_hits = [], [], {}
    replays = 0
    for r in results:
        for s, n in (r.get("known_hit") or {}).items():
            known_hits[s] = known_hits.get(s, 0) + n
        v = r.get("verdict")
        if v == "REFUTED":
            cex = r["cex"]
            if cex.get("args") is None:
                harness_errors.append(f"{r['name']}: counterexample could not be realised ({cex.get('sig')})")
                continue
            rec = {"property": prop, "module": r["module"], "tier": a.tier, "obligation": r["name"], "args": cex["args"], "clause": cex.get("clause"), "sig": cex.get("sig"), "detail": cex.get("detail"), "found_by": cex.get("source")}
            h = hashlib.sha1(json.dumps([rec["obligation"], rec["args"]], sort_keys=True).encode()).hexdigest()[:10]
            path = os.path.join(ROOT, "findings", f"{prop}-{h}.json")
            os.makedirs(os.path.dirname(path), exist_ok=True)
            with open(path, "w") as f:
                json.dump(rec, f, indent=1)
            rr = replay(prop, r["module"], a.tier, r["name"], cex["args"])
            replays += 1
            if rr.get("violation"):
                violations.append((path, rec, rr))
            else:
                harness_errors.append(f"{r['name']}: counterexample {cex.get('sig')} args={cex['args']} did not reproduce concretely (outcome {rr.get('outcome')}): encoding or stub wrong")
        elif v in ("ERROR", "WITNESS_MISMATCH"):
            harness_errors.append(f"{r['name']}: {v}: {r.get('error') or r.get('witness_mismatch', [])[:2]}")
        elif v == "CONFIRMED":
            missing = [c for c in r.get("expect", []) if not any(k == c or k.startswith(c) for k in r.get("hist", {}))]
            if missing:
                harness_errors.append(f"{r['name']}: vacuity: expected outcome classes never reached: {missing} (hist {r.get('hist')})")
            if r.get("paths", 0) - r.get("skipped", 0) <= 0 and not groups.get(r["name"]):
                harness_errors.append(f"{r['name']}: vacuity: every path skipped")

    # shards of one space (same group): at least one shard must have explored an in-bound path
    by_group = {}
    for r in results:
        g = groups.get(r["name"])
        if g and r.get("verdict") == "CONFIRMED":
            by_group.setdefault(g, 0)
            by_group[g] += max(r.get("paths", 0) - r.get("skipped", 0), 0)
    for g, n in by_group.items():
        if n == 0:
            harness_errors.append(f"group {g}: vacuity: every path of every shard skipped")

    # ---- report
    n_ob = len(results)
    confirmed = sum(1 for r in results if r.get("verdict") == "CONFIRMED")
    not_exh = [r["name"] for r in results if r.get("verdict") in ("NOT_EXHAUSTED", "TIMEOUT")]
    paths = sum(r.get("paths", 0) for r in results)
    skipped = sum(r.get("skipped", 0) for r in results)
    queries = sum((r.get("solver") or {}).get("queries", 0) for r in results)
    stime = sum((r.get("solver") or {}).get("time", 0.0) for r in results)
    warm = sum(sum((r.get("warm") or {}).values()) for r in results)
    wit = sum(r.get("witness_checked", 0) for r in results)
    distinct = sum(r.get("distinct", 0) for r in results)
    hist = {}
    for r in results:
        for k, n in (r.get("hist") or {}).items():
            hist[k] = hist.get(k, 0) + n
    funcs = sorted({f for r in results for f in r.get("functions", [])})
    for r in sorted(results, key=lambda r: r["name"]):
        print(f"  [{r.get('verdict'):>16}] {r['name']:<44} paths={r.get('paths', 0):<6} skipped={r.get('skipped', 0):<5} z3={((r.get('solver') or {}).get('queries', 0)):<7} wall={r.get('wall_s')}s {('' if not r.get('error') else 'ERR ' + str(r.get('error'))[:300])}")
    for s, n in sorted(known_hits.items()):
        print(f"KNOWN-FINDING: property={prop} {s} {known.get(s, '')} [{n} paths]")
    for path, rec, rr in violations:
        print(f"counterexample {rec['obligation']} args={rec['args']} sig={rec['sig']}: {str(rr['violation']['detail'])[:400]}")
        print(f"VIOLATION property={prop} replay={os.path.relpath(path, ROOT)}")
    for e in harness_errors:
        print(f"HARNESS-ERROR: {e}")
    if not_exh:
        print(f"NOT-EXHAUSTED (explored, no counterexample, bound not fully covered): {not_exh}")
    wall = round(time.time() - t0, 1)
    print(f"{prop} tier={a.tier}: obligations={n_ob} confirmed={confirmed} not_exhausted={len(not_exh)} violations={len(violations)} harness_errors={len(harness_errors)} paths={paths} z3_queries={queries} solver_time={stime:.1f}s wall={wall}s")

    if not a.no_evidence and not a.only and not a.fail_fast:
        samples = []
        for r in results:
            for s in (r.get("samples") or [])[:2]:
                samples.append({"obligation": r["name"], **s})
        ev = {
            "property_id": prop,
            "tier": a.tier,
            "seed": seed,
            "level": "model_checking",
            "coverage": {
                "states": max(paths - skipped, 0),
                "transitions": queries,
                "traces_validated_against_impl": warm + wit + replays,
                "samples": samples[:40] or [{"note": "no completed path"}],
                "evaluations": paths + warm,
                "distinct_nontrivial": distinct,
                "rule": "states = completed symbolic paths inside the bound (assume-skipped paths excluded); transitions = z3 check() calls deciding branches; a case is one (realised inputs, outcome class) pair of a completed path, distinct by that pair and non-trivial when not skipped by assume(); traces_validated = concrete sweep runs + per-path witnesses re-executed without CrossHair/stubs + counterexample replays",
                "obligations": n_ob,
                "discharged": confirmed,
                "not_exhausted": not_exh,
                "exhaustive": confirmed == n_ob and n_ob > 0,
                "paths_skipped_by_assume": skipped,
                "outcome_histogram": hist,
                "functions_encoded": funcs,
                "bounds": {r["name"]: r.get("bounds") for r in results},
                "per_obligation": [{"name": r["name"], "verdict": r.get("verdict"), "paths": r.get("paths"), "skipped": r.get("skipped"), "z3_queries": (r.get("solver") or {}).get("queries"), "solver_time_s": (r.get("solver") or {}).get("time"), "wall_s": r.get("wall_s")} for r in results],
                "solver_queries": queries,
                "solver_time_s": round(stime, 2),
                "known_findings_hit": known_hits,
                "harness_errors": harness_errors,
            },
            "assumptions": [
                "CPython 3.12 semantics as modelled by CrossHair 0.0.110; z3-solver wheel",
                "repr() inside library error-message modules stubbed to a constant (except methods/core.py, utils/method_builder.py)",
                "getattr/setattr/hasattr interceptors of CrossHair removed; isinstance routed to spec_classes metaclass hooks",
                "bounds per obligation as listed under coverage.bounds; everything outside is not claimed",
            ],
            "wall_s": wall,
            "violations": len(violations),
        }
        os.makedirs(os.path.join(ROOT, "evidence"), exist_ok=True)
        with open(os.path.join(ROOT, "evidence", f"{prop}.json"), "w") as f:
            json.dump(ev, f, indent=1, default=str)
    if violations:
        sys.exit(1)
    if harness_errors:
        sys.exit(2)
    sys.exit(0)


if __name__ == "__main__":
    main()
