"""Class grammar: the finite template family of DESIGN.md 3.1, each in lazy / eager / frozen form.

The reference models read the SPEC tables below (attribute -> declared type / default kind); they never read the
library's metadata.
"""
import dataclasses
from typing import Dict, List, Literal, Optional, Set, Union

from spec_classes import Attr, spec_class, spec_property
from spec_classes.types import KeyedList, KeyedSet


class NoDefault:
    """marker: attribute has no default"""


def make(bootstrap=True, frozen=False):
    """Build one family of template classes. Returns a namespace object."""
    kw = dict(bootstrap=bootstrap, frozen=frozen)

    @spec_class(**kw)
    class Inner:
        a: int = 0
        tags: List[str] = []

    @spec_class(key="k", **kw)
    class Item:
        k: str
        v: int = 0

    @spec_class(**kw)
    class K1:  # scalars
        x: int
        n: int = 1
        s: str = "s"
        f: float = 1.5
        o: Optional[str] = None
        u: Union[int, str] = 0
        lit: Literal["r", "w", 3] = "r"

    @spec_class(**kw)
    class K2:  # containers of scalars, one default kind each; `extras`/`flags`/`marks` have no default (container missing)
        nums: List[int] = []
        opts: Dict[str, int] = Attr(default_factory=dict)
        vals: Set[int] = dataclasses.field(default_factory=set)
        tags: List[str] = Attr(default=["t"])
        y: int = 0
        extras: List[int]
        flags: Dict[str, int]
        marks: Set[int]

    @spec_class(**kw)
    class K3:  # nested spec values
        inner: Inner
        inner2: Inner = Attr(default_factory=Inner)
        kids: List[Inner] = []
        by_name: Dict[str, Inner] = {}
        y: int = 0

    @spec_class(**kw)
    class K4:  # keyed items
        items: KeyedList[Item, str] = Attr(default_factory=KeyedList)
        bag: KeyedSet[Item, str] = Attr(default_factory=KeyedSet)
        lst: List[Item] = []
        y: int = 0
        kl2: KeyedList[Item, str] = []  # a default that conforms only after the assignment pipeline has prepared it

        def _prepare_item(self, it):  # item preparer returning NEW objects for some items
            if hasattr(it, "v") and isinstance(it.v, int) and it.v < 0:
                return Item(it.k, v=0)
            return it

    @spec_class(do_not_copy=["big"], **kw)
    class K5:  # prepared / derived / do_not_copy
        x: int = 0
        w: int = 0
        z: int = Attr(default=7, invalidated_by=["x"])
        big: List[int] = Attr(default_factory=list)
        pw: int = 0
        scores: List[int] = []
        src: int  # no default: deleting it while unset fails
        dz: int = Attr(default=1, invalidated_by=["src"])

        def _prepare_pw(self, v):  # documented preparer: str -> int cast
            if isinstance(v, str):
                return len(v)
            return v

        def _prepare_score(self, v):  # item preparer
            if isinstance(v, str):
                return len(v)
            return v

        @spec_property(cache=True, invalidated_by=["x"])
        def p(self):
            return self.x * 2

        @spec_property(cache=True, invalidated_by=["x"])
        def pl(self):  # cached derived value that is a MUTABLE object
            return [self.x]

    @spec_class(**kw)
    class Base:
        x: int = 1
        ys: List[int] = []

    @spec_class(**kw)
    class Sub(Base):  # spec subclass re-declaring y and re-defaulting x
        x = 5
        y: int = 2

    class Plain(Sub):  # plain subclass overriding a mutable default
        ys = [9]

    ns = type("NS", (), {})()
    for c in (Inner, Item, K1, K2, K3, K4, K5, Base, Sub, Plain):
        setattr(ns, c.__name__, c)
    ns.bootstrap, ns.frozen = bootstrap, frozen
    return ns


# attribute tables used by snapshots and models: class name -> ordered attribute names (managed attributes only)
ATTRS = {
    "Inner": ["a", "tags"],
    "Item": ["k", "v"],
    "K1": ["x", "n", "s", "f", "o", "u", "lit"],
    "K2": ["nums", "opts", "vals", "tags", "y", "extras", "flags", "marks"],
    "K3": ["inner", "inner2", "kids", "by_name", "y"],
    "K4": ["items", "bag", "lst", "y", "kl2"],
    "K5": ["x", "w", "z", "big", "pw", "scores", "src", "dz"],
    "Base": ["x", "ys"],
    "Sub": ["x", "ys", "y"],
    "Plain": ["x", "ys", "y"],
}
PROPS = {"K5": ["p", "pl"]}

# defaults as a newly constructed instance would hold them (fresh objects each call)
DEFAULTS = {
    "Inner": lambda: {"a": 0, "tags": []},
    "Item": lambda: {"v": 0},
    "K1": lambda: {"n": 1, "s": "s", "f": 1.5, "o": None, "u": 0, "lit": "r"},
    "K2": lambda: {"nums": [], "opts": {}, "vals": set(), "tags": ["t"], "y": 0},
    "K3": lambda: {"kids": [], "by_name": {}, "y": 0},  # inner: none; inner2: Inner() (handled by the model)
    "K4": lambda: {"lst": [], "y": 0},
    "K5": lambda: {"x": 0, "w": 0, "z": 7, "big": [], "pw": 0, "scores": [], "dz": 1},
    "Base": lambda: {"x": 1, "ys": []},
    "Sub": lambda: {"x": 5, "ys": [], "y": 2},
    "Plain": lambda: {"x": 5, "ys": [9], "y": 2},
}

EAGER = make(True, False)
LAZY = make(False, False)
FROZEN = make(True, True)
FAMILIES = {"eager": EAGER, "lazy": LAZY, "frozen": FROZEN}

# declared types (reference copy used by the conformance oracle; never read from library metadata)
TYPES = {
    "Inner": {"a": int, "tags": List[str]},
    "Item": {"k": str, "v": int},
    "K1": {"x": int, "n": int, "s": str, "f": float, "o": Optional[str], "u": Union[int, str], "lit": Literal["r", "w", 3]},
    "K2": {"nums": List[int], "opts": Dict[str, int], "vals": Set[int], "tags": List[str], "y": int, "extras": List[int], "flags": Dict[str, int], "marks": Set[int]},
    "K3": {"inner": "Inner", "inner2": "Inner", "kids": ("list", "Inner"), "by_name": ("dict", str, "Inner"), "y": int},
    "K4": {"items": ("klist", "Item"), "bag": ("kset", "Item"), "lst": ("list", "Item"), "y": int, "kl2": ("klist", "Item")},
    "K5": {"x": int, "w": int, "z": int, "big": List[int], "pw": int, "scores": List[int], "src": int, "dz": int},
    "Base": {"x": int, "ys": List[int]},
    "Sub": {"x": int, "ys": List[int], "y": int},
    "Plain": {"x": int, "ys": List[int], "y": int},
}
