"""E2 — in-memory statement instrumentation of spec_classes with a symbolic event index.

An import hook (meta-path finder) loads spec_classes.* from /repo's CURRENT source and inserts a call
`__vf__("<module>:<line>")` before every statement inside function bodies (all modules except types/missing.py, whose
metaclass dunders are called by CrossHair's own bookkeeping). Nothing is written to /repo.

The hook counts executed statements while armed and fires ONCE when the counter reaches the (symbolic) target:
  fault mode   : raise InjectedFault at that statement
  preempt mode : run a callback (the other thread's whole operation) at that statement, unless the current thread holds a
                 lock created by the library (tracked by wrapping threading.RLock/Lock as seen from spec_classes modules)
install() must be called before the first import of spec_classes.
"""
import ast
import builtins
import importlib.machinery
import sys
import threading


class InjectedFault(Exception):
    pass


class WouldBlock(BaseException):
    """a simulated thread tried to take a library lock held by another simulated thread: this schedule cannot continue
    with the preempting thread running to completion (outside the LIFO-nested family); the harness skips the path."""


CURRENT = [0]  # id of the simulated thread that is running

STATE = {"armed": False, "count": 0, "target": -1, "mode": "fault", "callback": None, "fired": None, "skip_locked": 0, "only_modules": None, "total": 0, "sites": None}
HELD = {"n": 0}


def __vf__(site):
    st = STATE
    if not st["armed"]:
        return
    if st["only_modules"] is not None and site.split(":", 1)[0] not in st["only_modules"]:
        return
    st["count"] += 1
    if st["sites"] is not None:
        st["sites"].append(site)
    if st["count"] == st["target"]:
        if st["mode"] == "preempt" and st.get("skip_when_locked") and HELD["n"] > 0:
            # never preempt a thread that holds a library lock: on one OS thread the lock would not block the
            # simulated other thread, so this switch point is not a feasible real schedule. Try the next statement.
            st["target"] += 1
            st["skip_locked"] += 1
            return
        st["armed"] = False
        st["fired"] = site
        if st["mode"] == "fault":
            raise InjectedFault(site)
        cb = st["callback"]
        if cb is not None:
            prev = CURRENT[0]
            CURRENT[0] = prev + 1  # the preempting thread
            try:
                cb()
            finally:
                CURRENT[0] = prev


builtins.__vf__ = __vf__


def arm(target, mode="fault", callback=None, only_modules=None, record_sites=False, skip_when_locked=False):
    STATE.update(skip_when_locked=skip_when_locked, armed=True, count=0, target=target, mode=mode, callback=callback, fired=None, skip_locked=0, only_modules=only_modules, sites=[] if record_sites else None)


def disarm():
    STATE["armed"] = False
    return STATE["count"]


def reset_locks():
    """forget simulated lock ownership (start of a path)"""
    HELD["n"] = 0
    CURRENT[0] = 0
    import gc

    for o in gc.get_objects():
        if isinstance(o, TrackedLock) and o._count:
            while o._count:
                try:
                    o.release()
                except RuntimeError:
                    o._count = 0
            o._owner = None


class TrackedLock:
    """wraps a threading lock created by library code; counts holds so that preemption never happens under a lock"""

    def __init__(self, real):
        self._real = real
        self._owner = None
        self._count = 0

    def acquire(self, *a, **k):
        if self._owner is not None and self._owner != CURRENT[0]:
            raise WouldBlock()
        r = self._real.acquire(*a, **k)
        if r:
            HELD["n"] += 1
            self._owner = CURRENT[0]
            self._count += 1
        return r

    def release(self):
        self._real.release()
        HELD["n"] -= 1
        self._count -= 1
        if self._count == 0:
            self._owner = None

    def __enter__(self):
        self.acquire()
        return self

    def __exit__(self, *a):
        self.release()
        return False


_REAL_RLOCK = threading.RLock


def _tracked_rlock():
    return TrackedLock(_REAL_RLOCK())


class _T(ast.NodeTransformer):
    def __init__(self, modname):
        self.modname = modname

    def _instr(self, body):
        out = []
        for st in body:
            st = self.visit(st)
            if isinstance(st, (ast.FunctionDef, ast.AsyncFunctionDef, ast.ClassDef, ast.Import, ast.ImportFrom, ast.Global, ast.Nonlocal)) or (isinstance(st, ast.Expr) and isinstance(st.value, ast.Constant)):
                out.append(st)
                continue
            call = ast.Expr(ast.Call(ast.Name("__vf__", ast.Load()), [ast.Constant(f"{self.modname}:{st.lineno}")], []))
            ast.copy_location(call, st)
            out.append(call)
            out.append(st)
        return out

    def visit_FunctionDef(self, node):
        node.body = self._instr(node.body)
        return node

    def generic_visit(self, node):
        if isinstance(node, ast.FunctionDef):
            return self.visit_FunctionDef(node)
        if isinstance(node, (ast.Module, ast.ClassDef)):
            node.body = [self.visit(s) for s in node.body]
            return node
        for f in ("body", "orelse", "finalbody"):
            v = getattr(node, f, None)
            if isinstance(v, list) and v and isinstance(v[0], ast.stmt):
                setattr(node, f, self._instr(v))
        if isinstance(node, ast.Try):
            for h in node.handlers:
                h.body = self._instr(h.body)
        return node


class _Loader(importlib.machinery.SourceFileLoader):
    def source_to_code(self, data, path, *, _optimize=-1):
        tree = ast.parse(data, path)
        tree = _T(self.name).visit(tree)
        ast.fix_missing_locations(tree)
        return compile(tree, path, "exec", dont_inherit=True, optimize=_optimize)

    def exec_module(self, module):
        # library modules see tracked locks
        super().exec_module(module)
        if "RLock" in module.__dict__ and module.__dict__["RLock"] is threading.RLock:
            pass


class _Finder(importlib.machinery.PathFinder):
    @classmethod
    def find_spec(cls, fullname, path=None, target=None):
        if not (fullname == "spec_classes" or fullname.startswith("spec_classes.")) or fullname.endswith(".missing"):
            return None
        spec = importlib.machinery.PathFinder.find_spec(fullname, path, target)
        if spec and isinstance(spec.loader, importlib.machinery.SourceFileLoader):
            spec.loader = _Loader(spec.loader.name, spec.loader.path)
            spec.cached = None
        return spec


_INSTALLED = [False]


def install():
    if _INSTALLED[0]:
        return
    assert not any(m == "spec_classes" or m.startswith("spec_classes.") for m in sys.modules), "vf.instrument.install() must run before spec_classes is imported"
    sys.dont_write_bytecode = True
    # lock tracking: `from threading import RLock` inside library modules must yield the tracked factory
    real_rlock = threading.RLock
    threading.RLock = _tracked_rlock
    sys.meta_path.insert(0, _Finder)
    try:
        import spec_classes  # noqa: F401
        import spec_classes.spec_class  # noqa: F401
        import spec_classes.utils.mutation  # noqa: F401
    finally:
        threading.RLock = real_rlock
    _INSTALLED[0] = True
