"""Replay of an E3 (BMC) counterexample schedule on the REAL code with real threads.

Each model thread becomes an OS thread running mutation.protect_via_deepcopy on a value that nests protected regions
`depth` times and contains modules. A sys.settrace line tracer (only inside the copy-protection class's methods) and
gate objects placed before every module (the model's USE steps) stop a thread at the points where the model's schedule
switches threads. A thread that has the turn but blocks on a real lock, or a schedule that switches at a point without
a line event (lock release), makes the replay inconclusive - never a pass, never a violation.
"""
import copyreg
import sys
import threading
import types

WAIT = 3.0


class ReplayInconclusive(Exception):
    pass


def event_of(step):
    _, op, line = step
    if op == "use":
        return ("use",)
    if op in ("release", "jump", "enter_region", "leave_region", "alloc_self"):
        return None
    return ("line", line)


def segments(trace, nthreads):
    """[(thread, stop_event or 'finish', occurrence)] - thread runs until it is about to perform stop_event for the
    occurrence-th time, then the next segment's thread gets the turn."""
    groups = []
    for idx, st in enumerate(trace):
        if groups and groups[-1][0] == st[0]:
            groups[-1][1].append(idx)
        else:
            groups.append((st[0], [idx]))
    segs = []
    passed = [dict() for _ in range(nthreads)]
    approximate = False
    for gi, (th, idxs) in enumerate(groups):
        for idx in idxs:
            ev = event_of(trace[idx])
            if ev is not None:
                passed[th][ev] = passed[th].get(ev, 0) + 1
        # next instruction of `th` later in the trace
        nxt = None
        for th2, idxs2 in groups[gi + 1 :]:
            if th2 == th:
                for idx in idxs2:
                    ev = event_of(trace[idx])
                    if ev is not None:
                        nxt = ev
                        break
                    approximate = True  # the switch happens before a step that has no line event
                if nxt is not None:
                    break
        if nxt is None:
            segs.append((th, "finish", 0))
        else:
            segs.append((th, nxt, passed[th].get(nxt, 0) + 1))
    return segs, approximate


class Scheduler:
    def __init__(self, segs, nthreads):
        self.segs = segs
        self.pos = 0
        self.cv = threading.Condition()
        self.counts = [dict() for _ in range(nthreads)]
        self.free = False
        self.failed = None
        self.finished = set()

    def _turn(self):
        if self.free or self.pos >= len(self.segs):
            return None
        return self.segs[self.pos][0]

    def _advance(self):
        self.pos += 1
        # skip segments of threads that already finished
        while self.pos < len(self.segs) and self.segs[self.pos][0] in self.finished:
            self.pos += 1
        self.cv.notify_all()

    def sync(self, i, ev):
        with self.cv:
            while True:
                t = self._turn()
                if t is None or self.failed:
                    return
                if t != i:
                    if not self.cv.wait(WAIT):
                        self.failed = f"thread {i} waited too long for its turn at {ev} (turn: {t})"
                        self.free = True
                        self.cv.notify_all()
                        return
                    continue
                # it is my turn
                _, stop, occ = self.segs[self.pos]
                n = self.counts[i].get(ev, 0) + 1
                if stop == ev and n == occ:
                    self._advance()  # switch away BEFORE performing ev
                    continue
                self.counts[i][ev] = n
                return

    def finish(self, i):
        with self.cv:
            self.finished.add(i)
            if self._turn() == i:
                self._advance()
            self.cv.notify_all()


def run(trace, nthreads, depth, init_table_present):
    from spec_classes.utils import mutation

    import ast

    tree = ast.parse(open(mutation.__file__).read())
    fn = next(n for n in tree.body if isinstance(n, ast.FunctionDef) and n.name == "protect_via_deepcopy")
    w = next(n for n in ast.walk(fn) if isinstance(n, ast.With))
    from vf.bmc import find_cm_class

    cname = find_cm_class(tree).name
    node = next(n for n in tree.body if isinstance(n, ast.ClassDef) and n.name == cname)
    CM = getattr(mutation, cname)
    lo, hi = node.lineno, node.end_lineno
    mfile = mutation.__file__

    def user_reducer(m):
        return "user-reducer"

    copyreg.dispatch_table.pop(types.ModuleType, None)
    if init_table_present:
        copyreg.dispatch_table[types.ModuleType] = user_reducer
    for name, v in list(vars(CM).items()):
        if isinstance(v, CM):
            delattr(CM, name)

    segs, approximate = segments(trace, nthreads)
    sched = Scheduler(segs, nthreads)
    tl = threading.local()

    class Gate:
        def __deepcopy__(self, memo):
            sched.sync(tl.i, ("use",))
            return self

    class Nest:
        def __init__(self, d):
            self.d = d

        def __deepcopy__(self, memo):
            mutation.protect_via_deepcopy(value(self.d))
            return self

    def value(d):
        v = [Gate(), sys]
        if d > 0:
            v += [Nest(d - 1), Gate(), types]
        return v

    flo, fhi = fn.lineno, fn.end_lineno

    def tracer(frame, event, arg):
        if frame.f_code.co_filename == mfile and (lo <= frame.f_lineno <= hi + 1 or flo <= frame.f_lineno <= fhi):

            def local(frame, event, arg):
                if event == "line":
                    sched.sync(tl.i, ("line", frame.f_lineno))
                return local

            return local
        return None

    errors = {}

    def body(i):
        tl.i = i
        sys.settrace(tracer)
        try:
            mutation.protect_via_deepcopy(value(depth))
        except Exception as ex:
            errors[i] = ex
        finally:
            sys.settrace(None)
            sched.finish(i)

    threads = [threading.Thread(target=body, args=(i,), daemon=True) for i in range(nthreads)]
    for t in threads:
        t.start()
    for t in threads:
        t.join(WAIT * 6)
    alive = [t for t in threads if t.is_alive()]
    if alive:
        with sched.cv:
            sched.free = True
            sched.cv.notify_all()
        for t in alive:
            t.join(WAIT)
    cur = copyreg.dispatch_table.get(types.ModuleType, None)
    restored = (cur is user_reducer) if init_table_present else (cur is None)
    copyreg.dispatch_table.pop(types.ModuleType, None)
    out = {"errors": {i: repr(e)[:200] for i, e in errors.items()}, "table_restored": restored, "scheduler_failed": sched.failed, "approximate": approximate, "deadlock": bool(alive), "segments": [(a, str(b), c) for a, b, c in segs]}
    out["violation"] = bool(errors) or not restored or (bool(alive) and not sched.failed)
    return out
