"""One obligation per process.
  python -m vf.worker list   <module> <tier>
  python -m vf.worker run    <module> <tier> <name> <outfile> <prop> <seed>
  python -m vf.worker replay <module> <tier> <name> <prop>      (args JSON on stdin; no CrossHair, no stubs)
"""
import importlib
import json
import os
import sys
import time

sys.dont_write_bytecode = True


def _obs(module, tier):
    mod = importlib.import_module(module)
    return {ob.name: ob for ob in mod.obligations(tier)}


def _functions_reached(ob, known):
    """Library functions reached by the concrete sweep (sys.setprofile)."""
    from vf.engine import run_concrete

    seen = set()
    root = os.path.realpath("/repo/spec_classes")

    def prof(frame, event, arg):
        if event == "call":
            co = frame.f_code
            fnm = co.co_filename
            if fnm.startswith(root) or "spec_classes" in fnm and fnm.startswith("/repo"):
                seen.add(f"{os.path.relpath(fnm, '/repo')}:{co.co_qualname}")

    sys.setprofile(prof)
    try:
        for a in ob.warm[:40]:
            run_concrete(ob.fn, a, known)
    finally:
        sys.setprofile(None)
    return sorted(seen)


def main():
    cmd = sys.argv[1]
    if cmd == "list":
        obs = _obs(sys.argv[2], sys.argv[3])
        print(json.dumps([{"name": o.name, "bounds": o.bounds, "timeout": o.timeout, "expect": sorted(o.expect), "group": getattr(o, "group", None)} for o in obs.values()]))
        return
    if cmd == "run":
        module, tier, name, outfile, prop, seed = sys.argv[2:8]
        from vf import known as K

        known = K.load(prop)
        t0 = time.time()
        try:
            ob = _obs(module, tier)[name]
            if getattr(ob, "runner", None) is not None:  # non-CrossHair obligation (E3: z3 BMC)
                res = ob.runner(known, int(seed))
            else:
                from vf import engine

                funcs = _functions_reached(ob, known)
                res = engine.explore(ob, known, seed=int(seed))
                res["functions"] = funcs
                res["expect"] = sorted(ob.expect)
        except BaseException as e:  # harness construction error
            import traceback

            res = {"name": name, "verdict": "ERROR", "error": f"{type(e).__name__}: {e}\n{traceback.format_exc(limit=8)}"[-2000:], "paths": 0, "hist": {}, "wall_s": round(time.time() - t0, 2)}
        res["module"] = module
        text = json.dumps(res, default=repr)  # serialise completely BEFORE touching the file (no truncated results)
        with open(outfile, "w") as f:
            f.write(text)
        return
    if cmd == "replay":
        module, tier, name, prop = sys.argv[2:6]
        args = json.load(sys.stdin)
        assert "crosshair" not in sys.modules
        from vf import known as K
        from vf.replaylib import dec, run_concrete

        ob = _obs(module, tier)[name]
        assert "crosshair" not in sys.modules, "replay must run without CrossHair"
        if getattr(ob, "replayer", None) is not None:
            oc, vio = ob.replayer(args, K.load(prop))
        else:
            oc, vio = run_concrete(ob.fn, dec(args), K.load(prop))
        print(json.dumps({"outcome": oc, "violation": vio}))
        return
    raise SystemExit("usage")


if __name__ == "__main__":
    main()
